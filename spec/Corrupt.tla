------------------------------ MODULE Corrupt ------------------------------
(***************************************************************************)
(* The corruption catalogue of DESIGN.md Appendix A.3: the closed universe *)
(* of C01 and C02.  An abstract corruption is                              *)
(*      [role, field, vc, csum]                                            *)
(* role  = which metadata object (bound by gen/corrupt.py to one concrete  *)
(*         object of a base image through the reader's location map),      *)
(* field = which field of that object, vc = the class of the new value,    *)
(* csum  = "fix" (the object's stored checksum is recomputed, only the     *)
(*         field is wrong) or "stale" (checksum left as it was).           *)
(* TLC enumerates `Catalogue` (spec/Emit_Corrupt) and the pair universe    *)
(* `Pairs`; python never invents a recipe that is not in these sets.       *)
(***************************************************************************)
EXTENDS Integers, Sequences, FiniteSets, TLC

F(field, vcs) == {<<field, v>> : v \in vcs}

IntV   == {"zero", "one", "plus1", "minus1", "max"}
CntV   == {"zero", "plus1", "minus1", "max"}
\* classes of a block-number field: 0, a block of another inode, another block of the same inode, a fixed-metadata
\* block (inode table), past the end of the filesystem, the next block
BlkV   == {"zero", "alias_other", "alias_self", "alias_meta", "beyond", "plus1"}
ModeV  == {"t_dir", "t_reg", "t_lnk", "t_chr", "t_fifo", "t_zero", "t_bad"}
FlagV  == {"tog_extents", "tog_index", "tog_inline", "tog_ea_inode", "tog_huge", "tog_immutable", "tog_casefold"}

(***************************************************************************)
(* inodes                                                                  *)
(***************************************************************************)
InodeCommon ==
    F("mode", ModeV) \cup F("links", IntV) \cup F("size_lo", IntV) \cup F("size_hi", {"one", "max"})
    \cup F("dtime", {"one"}) \cup F("flags", FlagV) \cup F("blocks_lo", IntV) \cup F("blocks_hi", {"one"})
    \cup F("file_acl", BlkV) \cup F("extra_isize", {"zero", "plus4", "odd", "max"})
    \cup F("generation", {"plus1"}) \cup F("csum_lo", {"plus1"}) \cup F("csum_hi", {"plus1"})
    \cup F("ibody_magic", {"zero", "plus1"})

\* i_block of an extent-mapped inode: header, first entry (leaf extent when depth = 0, index otherwise), second entry
ExtentRoot ==
    F("eh_magic", {"zero"}) \cup F("eh_entries", CntV) \cup F("eh_max", {"zero", "minus1", "plus1"})
    \cup F("eh_depth", {"plus1", "max"})
    \cup F("ee_block", {"plus1", "max"}) \cup F("ee_len", {"zero", "plus1", "tog_uninit", "max"})
    \cup F("ee_start", BlkV) \cup F("ee_start_hi", {"one"})
    \cup F("ee2_block", {"zero", "minus1"}) \cup F("ee2_start", BlkV)

\* i_block of a block-mapped inode: first direct slot, last direct slot, indirect, double indirect, triple indirect
BlockMapRoot ==
    F("ib0", BlkV) \cup F("ib11", BlkV) \cup F("ib_ind", BlkV) \cup F("ib_dind", BlkV) \cup F("ib_tind", {"alias_other", "beyond"})

\* ibody extended attributes (first entry) and inline data
IbodyXattr ==
    F("ie_name_len", {"zero", "max"}) \cup F("ie_name_index", {"max"}) \cup F("ie_value_offs", {"max", "plus1"})
    \cup F("ie_value_size", {"max", "plus1"}) \cup F("ie_value_inum", {"one", "alias_other"}) \cup F("ie_hash", {"plus1"})

MappedInode == InodeCommon \cup ExtentRoot \cup BlockMapRoot \cup IbodyXattr

InodeRoles == {"root", "lpf", "dir_htree", "dir_lin", "dir_small", "file_big", "file_sparse", "file_small", "file_xattr",
               "file_inline", "lnk_fast", "lnk_slow", "chr", "fifo", "journal", "resize", "quota_usr", "quota_grp",
               "orphan_file", "ea_inode", "free_inode"}

(***************************************************************************)
(* blocks that belong to inodes                                            *)
(***************************************************************************)
ExtentBlock ==      \* an index or leaf block of an extent tree (header, first and second entry, tail checksum)
    F("eh_magic", {"zero"}) \cup F("eh_entries", CntV) \cup F("eh_max", {"zero", "minus1", "plus1"})
    \cup F("eh_depth", {"plus1", "max"})
    \cup F("ee_block", {"plus1", "max"}) \cup F("ee_len", {"zero", "plus1", "tog_uninit", "max"})
    \cup F("ee_start", BlkV) \cup F("ee2_block", {"zero", "minus1"}) \cup F("ee2_start", BlkV) \cup F("tail_csum", {"plus1"})

IndBlock == F("slot0", BlkV) \cup F("slot1", BlkV) \cup F("slot_last", BlkV)

Dirent(k) ==        \* directory entry k of a directory block
    F(k \o "_inode", {"zero", "free_ino", "wrongtype_ino", "parent", "self", "beyond", "reserved_ino"})
    \cup F(k \o "_rec_len", {"zero", "eight", "minus4", "plus4", "beyond", "unaligned"})
    \cup F(k \o "_name_len", {"zero", "max"})
    \cup F(k \o "_file_type", {"wrong", "seven"})
    \cup F(k \o "_name0", {"slash", "nul", "dup"})

DirBlock == Dirent("d0") \cup Dirent("d1") \cup Dirent("d2") \cup Dirent("dlast")
            \cup F("tail_inode", {"one"}) \cup F("tail_rec_len", {"zero", "plus4"}) \cup F("tail_ft", {"zero"}) \cup F("tail_csum", {"plus1"})

DxNode ==           \* htree root or interior node
    F("dx_hash_version", {"plus1", "max"}) \cup F("dx_info_length", {"zero", "plus1"})
    \cup F("dx_levels", {"plus1", "max"}) \cup F("dx_unused_flags", {"one"})
    \cup F("dx_limit", {"zero", "plus1", "minus1"}) \cup F("dx_count", {"zero", "plus1", "minus1", "max"})
    \cup F("dx_block0", {"zero", "beyond", "dup"}) \cup F("dx_e1_hash", {"zero", "max"}) \cup F("dx_e1_block", {"zero", "beyond", "dup"})
    \cup F("dx_tail_csum", {"plus1"}) \cup Dirent("d0") \cup Dirent("d1")

XattrBlock ==
    F("x_magic", {"zero"}) \cup F("x_refcount", {"zero", "plus1", "max"}) \cup F("x_blocks", {"zero", "plus1"})
    \cup F("x_hash", {"plus1"}) \cup F("x_csum", {"plus1"})
    \cup F("xe_name_len", {"zero", "max"}) \cup F("xe_name_index", {"max"}) \cup F("xe_value_offs", {"zero", "max", "plus1"})
    \cup F("xe_value_size", {"max", "plus1"}) \cup F("xe_value_inum", {"one", "alias_other"}) \cup F("xe_hash", {"plus1"})

OrphanBlock == F("ob_magic", {"zero"}) \cup F("ob_csum", {"plus1"}) \cup F("ob_entry0", {"one", "free_ino", "used_ino", "beyond"})

(***************************************************************************)
(* global objects                                                          *)
(***************************************************************************)
Superblock ==
    F("s_inodes_count", {"zero", "plus1", "times2"}) \cup F("s_blocks_count", {"zero", "plus1", "minus1", "times2"})
    \cup F("s_free_blocks", {"zero", "plus1", "max"}) \cup F("s_free_inodes", {"zero", "plus1", "max"})
    \cup F("s_first_data_block", {"plus1", "max"}) \cup F("s_log_block_size", {"plus1", "max"})
    \cup F("s_blocks_per_group", {"zero", "plus1", "times2"}) \cup F("s_inodes_per_group", {"zero", "plus1", "times2"})
    \cup F("s_magic", {"zero"}) \cup F("s_state", {"zero", "tog_error", "tog_orphan"}) \cup F("s_first_ino", {"zero", "plus1", "max"})
    \cup F("s_inode_size", {"zero", "plus1", "times2"}) \cup F("s_rev_level", {"zero"})
    \cup F("s_feature_compat", {"tog_has_journal", "tog_ext_attr", "tog_resize_inode", "tog_dir_index", "tog_sparse_super2", "tog_orphan_file", "tog_unknown"})
    \cup F("s_feature_incompat", {"tog_filetype", "tog_extents", "tog_64bit", "tog_flex_bg", "tog_meta_bg", "tog_inline_data", "tog_ea_inode", "tog_recover", "tog_csum_seed", "tog_unknown"})
    \cup F("s_feature_ro_compat", {"tog_sparse_super", "tog_large_file", "tog_huge_file", "tog_gdt_csum", "tog_dir_nlink", "tog_extra_isize", "tog_quota", "tog_bigalloc", "tog_metadata_csum", "tog_project", "tog_orphan_present", "tog_unknown"})
    \cup F("s_desc_size", {"zero", "plus1", "times2"}) \cup F("s_reserved_gdt_blocks", {"zero", "plus1", "max"})
    \cup F("s_first_meta_bg", {"one", "max"}) \cup F("s_journal_inum", {"zero", "alias_other", "beyond"})
    \cup F("s_last_orphan", {"free_ino", "used_ino", "dir_ino", "beyond"}) \cup F("s_orphan_file_inum", {"zero", "alias_other", "beyond"})
    \cup F("s_usr_quota_inum", {"zero", "alias_other", "beyond"}) \cup F("s_grp_quota_inum", {"alias_other"})
    \cup F("s_backup_bgs0", {"zero", "plus1", "max"}) \cup F("s_log_groups_per_flex", {"plus1", "max"})
    \cup F("s_checksum_type", {"zero", "max"}) \cup F("s_checksum", {"plus1"}) \cup F("s_checksum_seed", {"plus1"})
    \cup F("s_min_extra_isize", {"max"}) \cup F("s_log_cluster_size", {"plus1", "zero"}) \cup F("s_mmp_block", {"one", "beyond"})

GroupDesc ==
    F("bg_block_bitmap", {"zero", "alias_group", "alias_itable", "beyond", "plus1"})
    \cup F("bg_inode_bitmap", {"zero", "alias_group", "alias_itable", "beyond", "plus1"})
    \cup F("bg_inode_table", {"zero", "alias_group", "plus1", "beyond"})
    \cup F("bg_free_blocks", CntV) \cup F("bg_free_inodes", CntV) \cup F("bg_used_dirs", CntV)
    \cup F("bg_flags", {"tog_inode_uninit", "tog_block_uninit", "tog_zeroed", "tog_unknown"})
    \cup F("bg_itable_unused", CntV) \cup F("bg_checksum", {"plus1"})
    \cup F("bg_bb_csum", {"plus1"}) \cup F("bg_ib_csum", {"plus1"})

BlockBitmap == F("bit", {"flip_data", "flip_index", "flip_free", "flip_fixed", "flip_padding", "flip_dirblk", "flip_xattr", "flip_journal"})
InodeBitmap == F("bit", {"flip_used", "flip_free", "flip_reserved", "flip_dir", "flip_last"})

JournalSb ==
    F("j_magic", {"zero"}) \cup F("j_blocktype", {"zero", "one", "max"}) \cup F("j_blocksize", {"zero", "times2"})
    \cup F("j_maxlen", {"zero", "plus1", "max"}) \cup F("j_first", {"zero", "max"}) \cup F("j_start", {"one", "max"})
    \cup F("j_sequence", {"plus1"}) \cup F("j_feature_incompat", {"tog_unknown", "tog_csum_v3", "tog_64bit"})
    \cup F("j_feature_ro", {"tog_unknown"}) \cup F("j_nr_users", {"zero", "max"}) \cup F("j_checksum", {"plus1"})
    \cup F("j_errno", {"one"})

BlockRoles == [ext_block |-> ExtentBlock, ind_block |-> IndBlock, dind_block |-> IndBlock,
               dirblk_root |-> DirBlock, dirblk_lin |-> DirBlock, dx_leaf |-> DirBlock,
               dx_root |-> DxNode, dx_node |-> DxNode, xattr_block |-> XattrBlock, orphan_block |-> OrphanBlock,
               sb |-> Superblock, gd_first |-> GroupDesc, gd_mid |-> GroupDesc, gd_last |-> GroupDesc,
               bb_first |-> BlockBitmap, bb_last |-> BlockBitmap, ib_first |-> InodeBitmap, ib_last |-> InodeBitmap,
               jsb |-> JournalSb,
               \* the bitmap / descriptor of the group that holds the first block of role file_small (used by Triples)
               bb_small |-> F("bit", {"flip_small"}), gd_small |-> F("bg_free_blocks", {"plus1"})]

Singles ==
    {[role |-> r, field |-> f[1], vc |-> f[2]] : r \in InodeRoles, f \in MappedInode}
    \cup UNION {{[role |-> r, field |-> f[1], vc |-> f[2]] : f \in BlockRoles[r]} : r \in DOMAIN BlockRoles}

Catalogue == {[role |-> s.role, field |-> s.field, vc |-> s.vc, csum |-> c] : s \in Singles, c \in {"fix", "stale"}}

(***************************************************************************)
(* Multi-field corruptions: all unordered pairs of the seeds below.  The   *)
(* seeds are the single corruptions whose repairs touch shared state       *)
(* (bitmaps, counts, link counts, ownership) -- the interacting classes of *)
(* the design model Fsck.tla (every pair of its corruption actions).       *)
(***************************************************************************)
S(r, f, v) == [role |-> r, field |-> f, vc |-> v]
PairSeeds == {
    S("bb_first", "bit", "flip_data"), S("bb_first", "bit", "flip_free"), S("bb_first", "bit", "flip_dirblk"),
    S("ib_first", "bit", "flip_used"), S("ib_first", "bit", "flip_free"), S("ib_last", "bit", "flip_used"),
    S("gd_first", "bg_free_blocks", "plus1"), S("gd_first", "bg_free_inodes", "minus1"), S("gd_first", "bg_used_dirs", "plus1"),
    S("gd_last", "bg_flags", "tog_inode_uninit"), S("gd_first", "bg_itable_unused", "max"),
    S("file_small", "links", "plus1"), S("file_small", "links", "zero"), S("file_small", "mode", "t_dir"),
    S("file_big", "ee_start", "alias_other"), S("file_big", "ib0", "alias_other"), S("file_big", "ee_len", "plus1"),
    S("file_sparse", "eh_entries", "minus1"), S("file_xattr", "file_acl", "alias_other"), S("file_big", "blocks_lo", "plus1"),
    S("dir_lin", "links", "plus1"), S("dir_lin", "mode", "t_reg"), S("dir_htree", "flags", "tog_index"),
    S("dirblk_lin", "d2_inode", "free_ino"), S("dirblk_lin", "d2_inode", "zero"), S("dirblk_lin", "d1_inode", "self"),
    S("dirblk_root", "d2_inode", "wrongtype_ino"), S("dirblk_root", "dlast_rec_len", "minus4"),
    S("dx_root", "dx_count", "minus1"), S("dx_leaf", "d0_rec_len", "plus4"),
    S("xattr_block", "x_refcount", "plus1"), S("ext_block", "ee_start", "alias_other"), S("ind_block", "slot0", "alias_other"),
    S("resize", "blocks_lo", "zero"), S("journal", "links", "zero"), S("sb", "s_free_blocks", "plus1"),
    S("root", "links", "plus1"), S("lpf", "mode", "t_reg"), S("free_inode", "links", "one"), S("orphan_block", "ob_entry0", "used_ino") }

Pairs == {<<a, b>> \in PairSeeds \X PairSeeds : a # b}   \* ordered here; gen/corrupt.py keeps one order per unordered pair

(***************************************************************************)
(* Closed multi-field corruptions: a block pointer aliased to another      *)
(* owner's block TOGETHER WITH the bookkeeping that hides the orphaned     *)
(* block (its bitmap bit cleared, the group's free count adjusted), so     *)
(* that the duplicate claim is the ONLY inconsistency left: ownership      *)
(* (SingleOwner) must then be detected by pass 1 itself and not by the     *)
(* redundancy of pass 5.                                                   *)
(***************************************************************************)
Triples == {<<S("file_small", f, "alias_other"), S("bb_small", "bit", "flip_small"), S("gd_small", "bg_free_blocks", "plus1")>> : f \in {"ee_start", "ib0"}}

(***************************************************************************)
(* Relocated bitmaps: closed multi-field corruptions of a group descriptor *)
(* POINTER.  The inode (block) bitmap pointer of a group whose bitmap the  *)
(* tools never read (INODE_UNINIT / BLOCK_UNINIT, descriptor checksum      *)
(* valid) is redirected onto a piece of FIXED metadata, the block the      *)
(* bitmap used to occupy is released in its group's block bitmap, that     *)
(* group's free count is adjusted and every checksum is recomputed: the    *)
(* only invariant left broken is "a descriptor's objects do not lie on     *)
(* fixed metadata" (NotFixedMeta) -- nothing that pass 5 would trip over.  *)
(* The targets cover every kind of fixed metadata (superblock, group       *)
(* descriptor table, reserved GDT blocks, and the bitmaps / inode table of *)
(* another group) of group 0 ("first"), of the nearest EARLIER group that  *)
(* has one and of the nearest LATER group that has one: a location check   *)
(* that knows the fixed metadata of only some groups must not pass.        *)
(* These recipes are not part of Singles/Catalogue (they only make sense   *)
(* together); gen/corrupt.py binds the three roles of one Reloc through    *)
(* the same group.                                                         *)
(***************************************************************************)
FixedKind   == {"sb", "gdt", "rsvgdt", "bb", "ib", "it"}
Where       == {"first", "earlier", "later"}
FixedTarget == {k \o "_" \o w : k \in FixedKind, w \in Where}
PtrField(b) == IF b = "ib" THEN "bg_inode_bitmap" ELSE "bg_block_bitmap"
Relocs == {<<S("gd_unread_" \o b, PtrField(b), t), S("bb_old_" \o b, "bit", "flip_old"), S("gd_old_" \o b, "bg_free_blocks", "plus1")>> :
              b \in {"ib", "bb"}, t \in FixedTarget}

(***************************************************************************)
(* The reserved-GDT map of the resize inode: entry k of its double         *)
(* indirect block names reserved GDT block k of group 0 (and that block    *)
(* lists its backups).  One corruption of the first, of the entry at one   *)
(* quarter and of the last entry of that map (a walker that stops early    *)
(* must not pass).  Single-field, but kept outside Singles/Catalogue like  *)
(* the Relocs: only C02 runs them (closed set C02Closed).                  *)
(***************************************************************************)
ResizeMap == {<<S("resize_dind", f, v)>> : f \in {"rsv_first", "rsv_quarter", "rsv_last"}, v \in {"zero", "plus1"}}

\* The closed Triples at the exact boundaries of the block range test: the pointer is set to the last valid / first invalid
\* block number on either side (BlkBoundV, defined with C02Bounds below) and the bookkeeping hides the block it used to name,
\* so that the out-of-range (or fixed-metadata) reference is the ONLY inconsistency: it must be detected by the range test of
\* pass 1 itself and not by the redundancy of pass 5.
BoundTriples == {<<S("file_small", f, v), S("bb_small", "bit", "flip_small"), S("gd_small", "bg_free_blocks", "plus1")>> :
                    f \in {"ee_start", "ib0"}, v \in {"last_valid", "first_invalid", "first_data", "below_first_data"}}

C02Closed == Relocs \cup ResizeMap \cup BoundTriples

(***************************************************************************)
(* C02 only: FIELD-WIDTH and RANGE-BOUNDARY catalogue (closed set          *)
(* C02Bounds; kept outside Singles / Catalogue, so C01's universe is what  *)
(* it was).  Every element is a single-field corruption with the object's  *)
(* checksum recomputed: the field is the ONLY thing wrong.                 *)
(*                                                                         *)
(* (a) HIGH HALVES.  With 64bit (descriptors of >= 64 bytes) every         *)
(* per-group count and location is  lo | hi << 16 (32), and an inode's     *)
(* i_size, i_blocks, i_file_acl, uid, gid have a high part in the inode    *)
(* body.  The property speaks about the VALUE (the per-group count, the    *)
(* block the inode references), so a corruption confined to the high half  *)
(* breaks the same invariant as one of the low half: a checker that reads  *)
(* only the low half (or the high half of a neighbouring field) must not   *)
(* pass.  The independent reader composes the full-width value             *)
(* (reader/ext4read.py parse_gd, parse_inode); GroupCounts / InRange /     *)
(* Shapes of Ext4Abs are stated over that value.                           *)
(*                                                                         *)
(* (b) EXACT BOUNDARIES of the range tests.  A block number b is valid iff *)
(* first_data_block <= b < blocks_count; an inode number n names a user    *)
(* inode iff first_ino <= n <= inodes_count; a per-group count c is        *)
(* possible iff 0 <= c <= objects per group.  The value classes below are  *)
(* the last valid and the first invalid value on either side of each test  *)
(* (an off-by-one in a range test shows at exactly one of them).           *)
(***************************************************************************)
BlkBoundV == {"last_valid", "first_invalid", "first_data", "below_first_data"}
InoBoundV == {"inodes_count", "inodes_count_p1", "first_ino_m1"}
CntBoundV == {"grp_max", "grp_max_p1"}
HiV       == {"plus1", "max"}

\* the block-number / inode-number / count fields of a field table: read off the value classes the table already gives them
BlkFieldsOf(tbl) == {f[1] : f \in {x \in tbl : x[2] \in {"alias_meta", "alias_group"}}}
InoFieldsOf(tbl) == {f[1] : f \in {x \in tbl : x[2] \in {"free_ino", "alias_other"}}} \ {f[1] : f \in {x \in tbl : x[2] \in {"alias_meta", "alias_group"}}}
BoundsOf(tbl)    == UNION {F(f, BlkBoundV) : f \in BlkFieldsOf(tbl)} \cup UNION {F(f, InoBoundV) : f \in InoFieldsOf(tbl)}

InodeHi == F("size_hi", HiV) \cup F("blocks_hi", HiV) \cup F("file_acl_hi", HiV) \cup F("uid_hi", HiV) \cup F("gid_hi", HiV)
GroupDescHi ==
    F("bg_block_bitmap_hi", HiV) \cup F("bg_inode_bitmap_hi", HiV) \cup F("bg_inode_table_hi", HiV)
    \cup F("bg_free_blocks_hi", HiV) \cup F("bg_free_inodes_hi", HiV) \cup F("bg_used_dirs_hi", HiV) \cup F("bg_itable_unused_hi", HiV)
    \cup F("bg_bb_csum_hi", {"plus1"}) \cup F("bg_ib_csum_hi", {"plus1"})
GroupDescCnt == UNION {F(f, CntBoundV) : f \in {"bg_free_blocks", "bg_free_inodes", "bg_used_dirs", "bg_itable_unused"}}

InodeBounds == BoundsOf(MappedInode) \cup F("ib_tind", BlkBoundV) \cup InodeHi
BlockRoleBounds == [r \in DOMAIN BlockRoles |->
    BoundsOf(BlockRoles[r])
    \cup (IF r \in {"gd_first", "gd_mid", "gd_last"} THEN GroupDescHi \cup GroupDescCnt ELSE {})
    \cup (IF r = "sb" THEN F("s_mmp_block", BlkBoundV) ELSE {})]

\* (what Singles already has -- size_hi.max -- is not repeated)
C02Bounds ==
    ({[role |-> r, field |-> f[1], vc |-> f[2]] : r \in InodeRoles, f \in InodeBounds}
     \cup UNION {{[role |-> r, field |-> f[1], vc |-> f[2]] : f \in BlockRoleBounds[r]} : r \in DOMAIN BlockRoles}) \ Singles

ASSUME \A t \in BoundTriples : t[1].vc \in BlkBoundV /\ t[1] \in C02Bounds
\* every block-number field of an inode, of a tree block and of a descriptor is there, with every boundary class
ASSUME \A f \in {"file_acl", "ee_start", "ee2_start", "ib0", "ib11", "ib_ind", "ib_dind", "ib_tind"} : \A v \in BlkBoundV : <<f, v>> \in InodeBounds
ASSUME \A f \in {"bg_block_bitmap", "bg_inode_bitmap", "bg_inode_table"} : \A v \in BlkBoundV : <<f, v>> \in BlockRoleBounds["gd_mid"]
ASSUME \A f \in {"s_journal_inum", "s_last_orphan", "s_orphan_file_inum", "s_usr_quota_inum"} : \A v \in InoBoundV : <<f, v>> \in BlockRoleBounds["sb"]
ASSUME \A k \in {"d0", "d1", "d2", "dlast"} : \A v \in InoBoundV : <<k \o "_inode", v>> \in BlockRoleBounds["dirblk_lin"]

(***************************************************************************)
(* C02 only: superblock recipes ON THE TOOL-BUILT IMAGES of                *)
(* gen/c02_extras.py (htree directories whose names have bytes >= 0x80,    *)
(* one image per hash version x signedness).  Whether such an index is     *)
(* well-formed depends on the hash the SUPERBLOCK prescribes: s_flags      *)
(* (signed / unsigned directory hash) selects the variant of the hash the  *)
(* dx_root names.  So the superblock fields that select the hash are       *)
(* corrupted on every one of those images (checksum recomputed): each bit  *)
(* of s_flags, both hash bits at once (signed <-> unsigned), every value   *)
(* of s_def_hash_version; plus the whole Superblock table.  The reader     *)
(* judges Shapes with the hash the corrupted superblock prescribes.        *)
(***************************************************************************)
SFlagsV      == {"tog_signed_hash", "tog_unsigned_hash", "tog_both_hash", "tog_test_fs", "tog_unknown"}
HashVersionV == {"hv_legacy", "hv_half_md4", "hv_tea", "hv_legacy_unsigned", "hv_half_md4_unsigned", "hv_tea_unsigned", "hv_siphash", "hv_beyond", "max"}
HashSelect   == F("s_flags", SFlagsV) \cup F("s_def_hash_version", HashVersionV)
HtreeExtras  == {h \o "_" \o s : h \in {"legacy", "halfmd4", "tea"}, s \in {"signed", "unsigned"}}
\* run by every tier on every image of HtreeExtras
ExtraHashRecipes == {[role |-> "sb", field |-> f[1], vc |-> f[2]] : f \in HashSelect}
\* thorough: all; quick: a seeded sample
ExtraSbRecipes   == {[role |-> "sb", field |-> f[1], vc |-> f[2]] : f \in Superblock}
\* the hash selectors are also bound on the base images (ASCII names: both variants of a hash agree there)
C02Hash == ExtraHashRecipes

ASSUME PairSeeds \subseteq Singles
ASSUME \A t \in Triples : \A k \in 1..3 : t[k] \in Singles

(***************************************************************************)
(* BOUNDARY CATALOGUE: starting images of C01's own, at the limits of the  *)
(* on-disk format.  The base images of gen/mkbase.py are 8-32 MiB: one     *)
(* meta group, two htree levels, extents far below the length limits.      *)
(* Repair code has branches that only run beyond those limits (the         *)
(* descriptor block of a LATER meta group, the split of an over-long       *)
(* merged extent, the three-level branch of the htree builder), so the     *)
(* universe gets one starting image per limit below, each stated from the  *)
(* format constants; gen/c01_extras.py builds exactly these (tools of the  *)
(* tree under test) and binds the roles of BoundaryRoles on them.          *)
(*                                                                         *)
(* An element of the universe on a boundary image is                       *)
(*    <<image, recipe>>  with recipe \in ImageRecipes(image)               *)
(* -- AsBuilt (the image as the tools built it: `e2fsck -fy` of the        *)
(* property runs on it unchanged), the recipes of the boundary roles of    *)
(* its kind, and every recipe of Catalogue whose role binds.  thorough     *)
(* runs all of them; quick runs Mandatory(image) plus a seeded sample of   *)
(* the rest.                                                               *)
(***************************************************************************)
\* ---- format constants (lib/ext2fs/ext3_extents.h, ext2_fs.h) -------------------------------------------------
ExtInitMaxLen   == 32768               \* EXT_INIT_MAX_LEN  = 1 << 15: longest written extent (ee_len <= 0x8000)
ExtUninitMaxLen == ExtInitMaxLen - 1   \* EXT_UNINIT_MAX_LEN: longest unwritten extent (ee_len = 0x8000 + len)
MinBlockSize    == 1024
MinBlocksPerGroup == 256               \* smallest -g mke2fs accepts at 1 KiB blocks
DescPerBlock(bs, ds) == bs \div ds     \* EXT2_DESC_PER_BLOCK: groups per meta group under meta_bg
DxEntrySize     == 8
DxTailSize(csum) == IF csum THEN 8 ELSE 0
DxRootLimit(bs, csum) == (bs - (32 + DxTailSize(csum))) \div DxEntrySize     \* '.' (12) + '..' (12) + dx_root_info (8)
DxNodeLimit(bs, csum) == (bs - (8 + DxTailSize(csum))) \div DxEntrySize      \* one fake dirent (8)
\* leaf blocks a tree of 1, 2 levels of index blocks can address (e2fsck/rehash.c calculate_tree, kernel dx_probe)
DxCap1(bs, csum) == DxRootLimit(bs, csum)
DxCap2(bs, csum) == DxRootLimit(bs, csum) * DxNodeLimit(bs, csum)
\* from this many leaves on, a three-level tree has a SECOND second-level index block
DxTwoSecond(bs, csum) == DxNodeLimit(bs, csum) * DxNodeLimit(bs, csum) + 1
MaxNameLen      == 255
DirentLen(n)    == 4 * ((8 + n + 3) \div 4)

\* ---- (i) meta_bg with >= 3 meta groups: 1 KiB blocks, smallest groups, 32- and 64-byte descriptors -----------
\* the last meta group is full in the one geometry and partial (2 groups) in the other
\* ipg: inodes per group, as few as hold the ~540 inodes of the host tree of gen/mkbase.py, so that the files reach into the
\* middle and the last (full) meta group
MetaBgImages == {[kind |-> "metabg", name |-> "metabg32", bs |-> MinBlockSize, bpg |-> MinBlocksPerGroup, dsize |-> 32,
                  groups |-> 3 * DescPerBlock(MinBlockSize, 32), ipg |-> 8],
                 [kind |-> "metabg", name |-> "metabg64", bs |-> MinBlockSize, bpg |-> MinBlocksPerGroup, dsize |-> 64,
                  groups |-> 3 * DescPerBlock(MinBlockSize, 64) + 2, ipg |-> 16]}
NMetaGroups(i) == (i.groups + DescPerBlock(i.bs, i.dsize) - 1) \div DescPerBlock(i.bs, i.dsize)
ASSUME \A i \in MetaBgImages : NMetaGroups(i) >= 3

\* descriptor of the first ("head") and of the last ("tail") group of the first, a middle and the last meta group: every
\* per-group recipe is bound in each of them (gd_first / gd_mid / gd_last of Catalogue fall into the same three meta groups)
MetaGroupRoles == {"mgd_" \o w \o "_" \o p : w \in {"first", "mid", "last"}, p \in {"head", "tail"}}
\* bitmaps of the first group of the middle and of the last meta group
MetaBitmapRoles == [mgbb_mid |-> BlockBitmap, mgbb_last |-> BlockBitmap, mgib_mid |-> InodeBitmap, mgib_last |-> InodeBitmap]

\* ---- (ii) extents at the length limits --------------------------------------------------------------------
\* a file = a run of extents that are adjacent logically AND physically (so a rebuild of the tree merges what may merge);
\* W(n) written, U(n) unwritten
W(n) == [kind |-> "w", len |-> n]
U(n) == [kind |-> "u", len |-> n]
LongShapes == [wumax |-> <<W(ExtInitMaxLen), U(ExtUninitMaxLen)>>,       \* both limits, nothing merges
               wover |-> <<W(ExtInitMaxLen), W(1)>>,                      \* merges to one block beyond the written limit
               uover |-> <<U(ExtUninitMaxLen), U(1)>>]                    \* merges to one block beyond the unwritten limit
\* depth of the tree that holds the run: 0 (in the inode), 1 and 2 -- the deeper ones are deeper than the few extents need,
\* which is what makes `e2fsck -fy` rebuild them (PR_1E_CAN_COLLAPSE_EXTENT_TREE)
LongExtentFiles == {[shape |-> s, depth |-> d] : s \in DOMAIN LongShapes, d \in 0..2}
LongName(f) == f.shape \o "_d" \o <<"0", "1", "2">>[f.depth + 1]
LongImages == {[kind |-> "longext", name |-> "longext", bs |-> MinBlockSize,
                files |-> {[name |-> LongName(f), runs |-> LongShapes[f.shape], depth |-> f.depth] : f \in LongExtentFiles}]}
\* roles: the inode of each file (lx_<file>), the leaf block that holds the run (lxb_<file>, depth >= 1) and the index block
\* above it (lxi_<file>, depth = 2)
LongInodeRoles == {"lx_" \o LongName(f) : f \in LongExtentFiles}
LongLeafRoles  == {"lxb_" \o LongName(f) : f \in {x \in LongExtentFiles : x.depth >= 1}}
LongIndexRoles == {"lxi_" \o LongName(f) : f \in {x \in LongExtentFiles : x.depth = 2}}

\* ---- (iii) directories at the 1/2-level and 2/3-level boundaries of the htree ------------------------------------
\* 1 KiB blocks, names of MaxNameLen bytes (3 entries per leaf), large_dir; leaves = what the rebuilt index must address
DirLeafCounts(bs, csum) == {DxCap1(bs, csum), DxCap1(bs, csum) + 1, DxCap2(bs, csum), DxCap2(bs, csum) + 1, DxTwoSecond(bs, csum)}
EntriesPerLeaf(bs) == ((bs * 4) \div 5) \div DirentLen(MaxNameLen)     \* rehash.c leaves indexed_dir_slack_percentage = 20 % free
ASSUME EntriesPerLeaf(MinBlockSize) = 3 /\ (MinBlockSize - 12) \div DirentLen(MaxNameLen) = 3
\* form "lin": the directory as a linear file (dir_index set in the superblock, directory not indexed, what mke2fs -d writes);
\* form "idx": the same after the tools indexed it (e2fsck -fyD)
DirImages == {[kind |-> "bigdir", name |-> "bigdir_" \o f \o "_" \o t[1], bs |-> MinBlockSize, csum |-> FALSE, form |-> f,
               leaves |-> t[2], entries |-> t[2] * EntriesPerLeaf(MinBlockSize),
               \* cost class: "quick" images are built and run by both tiers, the others by thorough only
               tier |-> t[3]] :
                  f \in {"lin", "idx"},
                  t \in {<<"cap1", DxCap1(MinBlockSize, FALSE), "quick">>, <<"cap1p", DxCap1(MinBlockSize, FALSE) + 1, "quick">>,
                         <<"cap2", DxCap2(MinBlockSize, FALSE), "thorough">>, <<"cap2p", DxCap2(MinBlockSize, FALSE) + 1, "thorough">>,
                         <<"twosecond", DxTwoSecond(MinBlockSize, FALSE), "quick">>}}
\* index blocks of a tree with three levels: dx_node (Catalogue) is the first second-level block; dx_node_last the last
\* second-level block, dx_third / dx_third_last the first / last third-level block, dx_leaf_last the last leaf
DirRoles == [dx_node_last |-> DxNode, dx_third |-> DxNode, dx_third_last |-> DxNode, dx_leaf_last |-> DirBlock,
             dirblk_big |-> DirBlock]

StartImages == MetaBgImages \cup LongImages \cup DirImages

\* ---- recipes of the boundary roles ----------------------------------------------------------------------------------
BoundaryRoles == [r \in MetaGroupRoles |-> GroupDesc] @@ MetaBitmapRoles
                 @@ [r \in LongInodeRoles |-> InodeCommon \cup ExtentRoot]
                 @@ [r \in LongLeafRoles \cup LongIndexRoles |-> ExtentBlock]
                 @@ DirRoles
RolesOfKind == [metabg |-> MetaGroupRoles \cup DOMAIN MetaBitmapRoles,
                longext |-> LongInodeRoles \cup LongLeafRoles \cup LongIndexRoles,
                bigdir |-> DOMAIN DirRoles]
BoundarySingles == UNION {{[role |-> r, field |-> f[1], vc |-> f[2]] : f \in BoundaryRoles[r]} : r \in DOMAIN BoundaryRoles}
BoundaryCatalogue == {[role |-> s.role, field |-> s.field, vc |-> s.vc, csum |-> c] : s \in BoundarySingles, c \in {"fix", "stale"}}
AsBuilt == [role |-> "image", field |-> "asbuilt", vc |-> "none", csum |-> "fix"]

\* roles of Catalogue that are run on an image of each kind besides the boundary roles (the rest of Catalogue is exercised on
\* the base images; on the expensive images only what touches the boundary object)
CatalogueRolesOn == [metabg  |-> InodeRoles \cup DOMAIN BlockRoles,
                     longext |-> {"root", "lpf", "free_inode", "sb", "gd_first", "gd_mid", "gd_last", "bb_first", "bb_last", "ib_first", "ib_last"},
                     bigdir  |-> {"dir_htree", "dx_root", "dx_node", "dx_leaf"}]
ImageRecipes(kind) == {AsBuilt} \cup {r \in BoundaryCatalogue : r.role \in RolesOfKind[kind]}
                      \cup {r \in Catalogue : r.role \in CatalogueRolesOn[kind]}

\* quick tier: these on every image of the kind, for every seed (one count repair, one flag repair and one pointer repair in
\* each bound meta group; one size and one extent repair per long-extent file; one repair per index level)
M(r, f, v) == [role |-> r, field |-> f, vc |-> v, csum |-> "fix"]
Mandatory == [
    metabg |-> {AsBuilt} \cup {M(r, f[1], f[2]) : r \in MetaGroupRoles \cup {"gd_first", "gd_mid", "gd_last"},
                                                   f \in {<<"bg_free_blocks", "plus1">>, <<"bg_free_inodes", "minus1">>, <<"bg_used_dirs", "plus1">>,
                                                          <<"bg_flags", "tog_block_uninit">>, <<"bg_inode_bitmap", "plus1">>}}
               \cup {M(r, "bit", "flip_free") : r \in DOMAIN MetaBitmapRoles}
               \cup {M(r, "bit", "flip_used") : r \in {"mgib_mid", "mgib_last"}} \cup {M(r, "bit", "flip_data") : r \in {"mgbb_mid", "mgbb_last"}},
    longext |-> {AsBuilt} \cup {M(r, f[1], f[2]) : r \in LongInodeRoles,
                                                    f \in {<<"blocks_lo", "plus1">>, <<"size_lo", "plus1">>, <<"ee_len", "tog_uninit">>, <<"ee2_block", "minus1">>}}
                \cup {M(r, f[1], f[2]) : r \in LongLeafRoles, f \in {<<"eh_entries", "plus1">>, <<"ee_len", "tog_uninit">>, <<"ee2_block", "minus1">>}}
                \cup {M(r, f[1], f[2]) : r \in LongIndexRoles, f \in {<<"eh_entries", "plus1">>, <<"ee_block", "plus1">>}},
    bigdir |-> {AsBuilt, M("dx_root", "dx_count", "minus1"), M("dx_node", "dx_limit", "plus1"), M("dx_node_last", "dx_count", "plus1"),
                M("dx_third", "dx_limit", "minus1"), M("dx_third_last", "dx_limit", "plus1"), M("dx_leaf_last", "d1_name0", "dup"),
                M("dirblk_big", "d2_name0", "dup"), M("dir_htree", "flags", "tog_index")}]
ASSUME \A k \in DOMAIN Mandatory : Mandatory[k] \subseteq ImageRecipes(k)
=============================================================================
