SPECIFICATION Spec
CONSTANTS
  N = 8
  MaxLen = 10
  TdbSizes = {1, 2, 4}
  BlkSizes = {1, 2, 4}
  Offsets = {0, 1, 3}
  KpbPerG = 2
  MaxExt = 2
  MaxOps = 2
  MaxRuns = 2
  MaxSpan = 3
  DevByteOffTwice = FALSE
  DevAbsTiling = FALSE
  DevChanUnits = FALSE
  DevReopenFull = FALSE
  DevExtendShort = FALSE
INVARIANT TypeOK
INVARIANT U1
INVARIANT U2
INVARIANT U3
INVARIANT R1
INVARIANT R2
INVARIANT Layout
CHECK_DEADLOCK FALSE
