SPECIFICATION Spec
CONSTANTS
  Hashes = {0}
  Ids = {1}
  Cap = 2
  LBlks = {0, 1, 2, 3}
  DataBlks = {1, 2, 3, 4}
  MetaBlks = {8, 9}
  InoExt = 2
  NDirect = 2
  MaxDamage = 2
  MaxRuns = 1
  DevRehashDropsCollision = FALSE
  DevRehashDropsBoundary = FALSE
  DevRebuildDropsLast = FALSE
  DevCsumClearsLeaf = FALSE
  DevSbCsumRefuses = FALSE
  InitExtStates = {"w", "u"}
  InvalidIds = {}
  CfModes = {"plain"}
  DevRebuildMergesAcrossState = FALSE
  DevEncCheckIgnoresStrict = FALSE
  DevCasefoldOpaqueHashFails = FALSE
  DevDupFoldsPlainDir = FALSE
  BSz = 2
  SizeClasses = {"end"}
  DevSizeLimitInclusive = FALSE
  DevInodeUninitWipes = FALSE
INVARIANT TypeOK
INVARIANT TreeUnchanged
INVARIANT ExitOK
INVARIANT ConsistentAfter
INVARIANT ModeScope
PROPERTY ContractRefined
PROPERTY InitStatePreserved
CHECK_DEADLOCK FALSE
