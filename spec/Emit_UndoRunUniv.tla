------------------------- MODULE Emit_UndoRunUniv -------------------------
(* Writes the product part of the tool-level universe of C12 as JSON (IOEnv.OUT):
   {"universe": [element ...], "facts": {base: facts}, "states": [...], "tails": [...]} *)
EXTENDS UndoRunUniv, Json, IOUtils, SequencesExt
VARIABLE x
Out == [universe |-> SetToSeq(Universe), facts |-> BaseFacts, states |-> SetToSeq(States), tails |-> SetToSeq(Tails)]
ASSUME JsonSerialize(IOEnv.OUT, Out)
Init == x = 0
Next == x' = x /\ UNCHANGED x
=============================================================================
