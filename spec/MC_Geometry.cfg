SPECIFICATION Spec
CONSTANTS
  Sizes = {64, 200, 1025, 2049, 4000, 8192, 8193, 8245, 8260, 16384, 16385, 24577, 30000, 65536}
INVARIANT Inv
INVARIANT NoLoop
INVARIANT ResizeInodeOK
CHECK_DEADLOCK FALSE
