---------------------------- MODULE ContBadblocks ----------------------------
(* lib/ext2fs/badblocks.c: ext2_u32_list / ext2_badblocks_list, a sorted array of
   32-bit numbers refining a set (ContAbs).

   bbList   the first `num' elements of bb->list
   bbSize   bb->size
   bbSet    the set
   bbRes    [op, impl, ref]

   ext2fs_u32_list_add grows the array (size += BbGrow, 100 in the code) when num >= size BEFORE it looks whether
   the number is already there; then: equal to the last element -> nothing; above the last -> append; otherwise a linear
   scan for the first larger element and a shift.  ext2fs_u32_list_find is a binary search that tests both ends first
   and stops when the interval cannot shrink.  Both are transcribed step by step (BbScan, BbFind).            *)
EXTENDS ContAbs
CONSTANTS BbGrow,        \* 100
          BbVals,        \* universe of numbers (model checking)
          BbInitSizes    \* Init; ext2fs_u32_list_create(.., 0) gives 10
VARIABLES bbList, bbSize, bbSet, bbRes
bbVars == <<bbList, bbSize, bbSet, bbRes>>
BbR(o, i, r) == [op |-> o, impl |-> i, ref |-> r]

\* the scanning loop of ext2fs_u32_list_add: returns -1 if blk is found, else the 0-based insert position j
RECURSIVE BbScan(_, _, _)
BbScan(x, blk, i) ==
   IF i >= Len(x) THEN Len(x)
   ELSE IF x[i + 1] = blk THEN -1
   ELSE IF x[i + 1] > blk THEN i
   ELSE BbScan(x, blk, i + 1)
\* the same position without recursion (long arrays): first element >= blk
BbScanFlat(x, blk) ==
   LET ge == {i \in 1..Len(x) : x[i] >= blk} IN
   IF ge = {} THEN Len(x) ELSE IF x[MinOf(ge)] = blk THEN -1 ELSE MinOf(ge) - 1

\* ext2fs_u32_list_find: 0-based index or -1
RECURSIVE BbLoop(_, _, _, _)
BbLoop(x, blk, low, high) ==
   IF ~(low < high) THEN -1
   ELSE LET mid == (low + high) \div 2 IN
        IF mid = low \/ mid = high THEN -1
        ELSE IF blk = x[mid + 1] THEN mid
        ELSE IF blk < x[mid + 1] THEN BbLoop(x, blk, low, mid) ELSE BbLoop(x, blk, mid, high)
BbFind(x, blk) ==
   IF Len(x) = 0 THEN -1
   ELSE IF blk = x[1] THEN 0
   ELSE IF blk = x[Len(x)] THEN Len(x) - 1
   ELSE BbLoop(x, blk, 0, Len(x) - 1)

BbAdd(blk) ==
   /\ bbSize' = IF Len(bbList) >= bbSize THEN bbSize + BbGrow ELSE bbSize
   /\ LET n == Len(bbList) IN
      IF n # 0 /\ bbList[n] = blk THEN bbList' = bbList
      ELSE IF n = 0 \/ bbList[n] < blk THEN bbList' = bbList \o <<blk>>
      ELSE LET j == BbScan(bbList, blk, 0) IN
           bbList' = IF j = -1 THEN bbList ELSE InsertAt0(bbList, j, blk)
   /\ bbSet' = bbSet \cup {blk}
   /\ bbRes' = BbR("add", <<OK>>, <<OK>>)

BbDel(blk) ==
   /\ LET loc == BbFind(bbList, blk) IN
      IF Len(bbList) = 0 \/ loc < 0 THEN bbList' = bbList /\ bbRes' = BbR("del", <<-1>>, <<IF blk \in bbSet THEN 0 ELSE -1>>)
      ELSE bbList' = RemoveAt0(bbList, loc) /\ bbRes' = BbR("del", <<0>>, <<IF blk \in bbSet THEN 0 ELSE -1>>)
   /\ bbSet' = bbSet \ {blk}
   /\ UNCHANGED bbSize

\* ext2fs_u32_list_test and ext2fs_u32_list_find (the index is observable through find)
BbTest(blk) ==
   /\ LET loc == BbFind(bbList, blk) IN
      bbRes' = BbR("test", <<IF loc < 0 THEN 0 ELSE 1, loc>>,
                   <<IF blk \in bbSet THEN 1 ELSE 0, IF blk \in bbSet THEN Cardinality({v \in bbSet : v < blk}) ELSE -1>>)
   /\ UNCHANGED <<bbList, bbSize, bbSet>>

\* iterate_begin, iterate until it returns 0, iterate_end; and ext2fs_u32_list_count
BbIterate == /\ bbRes' = BbR("iterate", bbList, bbSet) /\ UNCHANGED <<bbList, bbSize, bbSet>>
BbCount == /\ bbRes' = BbR("count", <<Len(bbList)>>, <<Cardinality(bbSet)>>) /\ UNCHANGED <<bbList, bbSize, bbSet>>
\* ext2fs_u32_copy, the copy replacing the original; ext2fs_u32_list_equal(original, copy) is the result
BbCopy == /\ bbRes' = BbR("copy", <<1>>, <<1>>) /\ UNCHANGED <<bbList, bbSize, bbSet>>
\* ext2fs_u32_list_equal against a copy in which blk was added (blk absent) or deleted (blk present)
BbEqualMod(blk) == /\ bbRes' = BbR("equal_mod", <<0>>, <<0>>) /\ UNCHANGED <<bbList, bbSize, bbSet>>

BbInit == /\ bbList = <<>> /\ bbSize \in BbInitSizes /\ bbSet = {} /\ bbRes = BbR("init", <<OK>>, <<OK>>)
BbNext == \/ \E v \in BbVals : BbAdd(v) \/ BbDel(v) \/ BbTest(v) \/ BbEqualMod(v)
          \/ BbIterate \/ BbCount \/ BbCopy
BbSpec == BbInit /\ [][BbNext]_bbVars

BbStructural == /\ Len(bbList) <= bbSize
                /\ StrictlyAscending(bbList)
BbRefines == SeqRange(bbList) = bbSet
BbResultsAgree == IF bbRes.op = "iterate" THEN StrictlyAscending(bbRes.impl) /\ SeqRange(bbRes.impl) = bbRes.ref
                  ELSE bbRes.impl = bbRes.ref
\* the two formulations of the insert position agree (BbScanFlat is what the trace specification uses on long arrays)
BbScanAgree == \A v \in BbVals : BbScan(bbList, v, 0) = BbScanFlat(bbList, v)
=============================================================================
