--------------------------- MODULE Trace_UndoRun ---------------------------
(* Trace validation for C12, tool level.  A recording run (mke2fs, tune2fs, resize2fs, e2fsck, debugfs -w, e2undo -z;
   possibly several in a row appending to one undo file) is observed through harness/iotrace.so on BOTH files: every
   write-class system call on the device and on the undo file, with payload.  checks/c12.py turns the calls into the
   events below; the only things it computes are (i) which device bytes an undo-file data block announces, by reading
   the finished undo file with its own parser (key.fsblk * header.fs_block_size + header.fs_offset), (ii) an
   order-preserving renumbering of all byte positions that occur into cells (DESIGN 2.3), (iii) byte comparisons.

     S  a b m   a data block of the undo file was written that announces device cells [a, b);
                m = 1 iff its payload equals what the device held at that position at that moment
     W  a b     a write-class call on the device covering cells [a, b) of the original length
     U  ...     a run of the real e2undo: mode (0 plain, 1 -n), dmg (1 = the undo file has a flipped bit in checksummed
                bytes or the superblock was tampered with), exit status, number of write-class calls on the device,
                same (device unchanged by this run), restored (device equals its pre-run copy over the original length;
                for an unfinished record: outside the superblock / group descriptor blocks), unfin, needcheck

   This is the system-call projection of UndoIo's invariants:
     U1 write-ahead      no device cell is written before a data block announcing it is in the undo file  (Late = {})
        exactly once     no cell is announced twice                                                       (Twice = {})
     U3 unit             what is announced for a position is what was at that position                   (Wrong = {})
     U2 / R1 / R2        see UndoOk                                                                                      *)
EXTENDS Integers, Sequences, FiniteSets, TLC, Json, IOUtils
VARIABLES l, saved, dirty, late, twice, wrong, undo_ok
tvars == <<l, saved, dirty, late, twice, wrong, undo_ok>>
Tr == ndJsonDeserialize(IOEnv.TRACE)
E == Tr[l]
IsEvent(e) == l <= Len(Tr) /\ Tr[l].e = e /\ l' = l + 1
Cells(a, b) == a..(b - 1)

TReset == /\ IsEvent("Reset")
          /\ saved' = {} /\ dirty' = {} /\ late' = {} /\ twice' = {} /\ wrong' = {} /\ undo_ok' = TRUE
TSave == /\ IsEvent("S")
         /\ saved' = saved \cup Cells(E.a, E.b)
         /\ twice' = twice \cup (Cells(E.a, E.b) \cap saved)
         /\ wrong' = wrong \cup (IF E.m = 1 THEN {} ELSE Cells(E.a, E.b))
         /\ UNCHANGED <<dirty, late, undo_ok>>
TWrite == /\ IsEvent("W")
          /\ dirty' = dirty \cup Cells(E.a, E.b)
          /\ late' = late \cup (Cells(E.a, E.b) \ saved)
          /\ UNCHANGED <<saved, twice, wrong, undo_ok>>
\* the contract of one e2undo run
UndoOk(e) == /\ (e.mode = 1 => e.writes = 0 /\ e.same = 1)                                     \* -n never writes
             /\ (e.mode = 0 /\ e.dmg = 1 => e.exit # 0 /\ e.writes = 0 /\ e.same = 1)          \* refuses without writing
             /\ (e.mode = 0 /\ e.dmg = 0 => e.exit = 0 /\ e.restored = 1)                      \* restores
             /\ (e.mode = 0 /\ e.dmg = 0 /\ e.unfin = 1 => e.needcheck = 1)                    \* ... and marks
TUndo == /\ IsEvent("U")
         /\ undo_ok' = UndoOk(E)
         /\ UNCHANGED <<saved, dirty, late, twice, wrong>>

TraceInit == l = 1 /\ saved = {} /\ dirty = {} /\ late = {} /\ twice = {} /\ wrong = {} /\ undo_ok = TRUE
TraceNext == TReset \/ TSave \/ TWrite \/ TUndo
TraceSpec == TraceInit /\ [][TraceNext]_tvars
TraceAccepted == TLCGet("stats").diameter - 1 = Len(Tr)

WriteAhead == late = {}
ExactlyOnce == twice = {}
UnitOk == wrong = {}
UndoContract == undo_ok
=============================================================================
