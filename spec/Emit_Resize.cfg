INIT EInit
NEXT ENext
CONSTANTS
  MaxG = 4
  DevUninitSkipOffByOne = FALSE
  DevBoundaryInodeMoved = FALSE
  DevFlagClearedEarly = FALSE
CHECK_DEADLOCK FALSE
