------------------------------- MODULE Xattr -------------------------------
(* Property level of C15: the extended attributes of one inode are a map  name -> value.
   A value is abstracted to (length, tag, nz): the harness derives the bytes from the tag (a position-dependent
   pattern without zero bytes, different tags differ at every position); the first nz bytes follow the pattern
   and the remaining length - nz bytes are zero.  Values written through the attribute interface have nz = length;
   only the inline-data attribute system.data can have a zero tail (the file was truncated inside the inline
   area).  Equal (length, tag, nz) means equal bytes, and nz = 0 has tag 0.
   Operations: Set (create or replace), a refused Set (the implementation may answer "no space": the map must then
   be unchanged), Remove (also of an absent name: no effect), Get (reads the map).
   "Reading the attributes back returns exactly the model's name-to-value map" is  Abs(implementation) = attrs,
   stated by the implementation-shaped module XattrPlace as invariant Refines.                                  *)
EXTENDS Integers
CONSTANTS Names,        \* the closed name universe (identifiers; XattrPlace gives them index + short name)
          VLens,        \* value lengths in the universe
          Tags          \* value tags (>= 1)
VARIABLE attrs

None == [vlen |-> -1, tag |-> 0, nz |-> 0]             \* "no such attribute" (uniformly typed for the trace)
NormTag(v, t) == IF v = 0 THEN 0 ELSE t
Val(v, t) == [vlen |-> v, tag |-> NormTag(v, t), nz |-> v]
ValZ(v, t, z) == [vlen |-> v, tag |-> NormTag(z, t), nz |-> z]      \* z pattern bytes, then v - z zero bytes

AbsTypeOK == \A n \in Names : \/ attrs[n] = None
                               \/ /\ attrs[n].vlen \in Nat /\ attrs[n].tag \in Tags \cup {0}
                                  /\ attrs[n].nz \in 0..attrs[n].vlen /\ (attrs[n].tag = 0 <=> attrs[n].nz = 0)

AInit(present) == attrs = [n \in Names |-> IF n \in present THEN Val(0, 0) ELSE None]
ASet(n, v, t)  == attrs' = [attrs EXCEPT ![n] = Val(v, t)]
ARefused       == UNCHANGED attrs
ARemove(n)     == attrs' = [attrs EXCEPT ![n] = None]
APut(n, val)   == attrs' = [attrs EXCEPT ![n] = val]          \* another subsystem rewrites one attribute (inline data)
Get(n)         == attrs[n]

\* stand-alone behaviour of the abstract object (used only to sanity-check this module on its own)
XInit == AInit({})
XNext == \/ \E n \in Names, v \in VLens, t \in Tags : ASet(n, v, t) \/ ARefused
         \/ \E n \in Names : ARemove(n)
XSpec == XInit /\ [][XNext]_attrs
=============================================================================
