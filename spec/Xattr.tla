------------------------------- MODULE Xattr -------------------------------
(* Property level of C15: the extended attributes of one inode are a map  name -> value.
   A value is abstracted to (length, tag): the harness derives the bytes from the tag, so equal (length, tag)
   means equal bytes, and a value of length 0 has tag 0 (all empty values are the same value).
   Operations: Set (create or replace), a refused Set (the implementation may answer "no space": the map must then
   be unchanged), Remove (also of an absent name: no effect), Get (reads the map).
   "Reading the attributes back returns exactly the model's name-to-value map" is  Abs(implementation) = attrs,
   stated by the implementation-shaped module XattrPlace as invariant Refines.                                  *)
EXTENDS Integers
CONSTANTS Names,        \* the closed name universe (identifiers; XattrPlace gives them index + short name)
          VLens,        \* value lengths in the universe
          Tags          \* value tags (>= 1)
VARIABLE attrs

None == [vlen |-> -1, tag |-> 0]                       \* "no such attribute" (uniformly typed for the trace)
NormTag(v, t) == IF v = 0 THEN 0 ELSE t
Val(v, t) == [vlen |-> v, tag |-> NormTag(v, t)]

AbsTypeOK == attrs \in [Names -> {None} \cup [vlen : VLens, tag : Tags \cup {0}]]

AInit(present) == attrs = [n \in Names |-> IF n \in present THEN Val(0, 0) ELSE None]
ASet(n, v, t)  == attrs' = [attrs EXCEPT ![n] = Val(v, t)]
ARefused       == UNCHANGED attrs
ARemove(n)     == attrs' = [attrs EXCEPT ![n] = None]
Get(n)         == attrs[n]

\* stand-alone behaviour of the abstract object (used only to sanity-check this module on its own)
XInit == AInit({})
XNext == \/ \E n \in Names, v \in VLens, t \in Tags : ASet(n, v, t) \/ ARefused
         \/ \E n \in Names : ARemove(n)
XSpec == XInit /\ [][XNext]_attrs
=============================================================================
