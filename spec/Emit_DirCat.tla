---------------------------- MODULE Emit_DirCat ----------------------------
(* Writes the boundary catalogue of the link-count rule (Dir!NlinkCatalogue: stored counts of the parent around LinkMax and the
   overflowed value 1 x {mkdir, rmdir}, with what the specification says must happen) as JSON to IOEnv.OUT, for the feature
   setting DirNlink of the configuration.                                                                                  *)
EXTENDS Dir, Json, IOUtils, SequencesExt
VARIABLE x
ASSUME JsonSerialize(IOEnv.OUT, [linkmax |-> LinkMax, cat |-> SetToSeq(NlinkCatalogue)])
Init == x = 0
Next == x' = x /\ UNCHANGED x
=============================================================================
