----------------------------- MODULE Geometry -----------------------------
(* lib/ext2fs/initialize.c (ext2fs_initialize) geometry arithmetic as mke2fs drives it, plus
   ext2fs_bg_has_super (closefs.c).  Properties C07 and C20.  All quantities < 2^31 (images <= 64 MiB).
   cfg record: [bs, blocks (requested), iratio, isz, bpg (0 = default), resize, sparse, ss2, metabg, is64, ninodes (0 = from ratio),
                nbsb (-E num_backup_sb, 0..2; mke2fs default 2), rszto (-E resize=<blocks>, 0 = not given),
                dev (FALSE = the behaviour the property asks for; TRUE = with the named deviation of the code, see Body)]
   Compute(cfg) = [err, blocks, first, bpg, gdc, ipg, itb, rsv, descb, metabg, resize, inodes, backups, bgs]
   Further down: what ext2fs_create_resize_inode must put into inode 7 for a geometry (ResizeDindMap, ResizeBackupList,
   ResizeIBlocks), the option families of mke2fs whose effect is a plain superblock/inode field (Req...), and the
   catalogue of boundary cells the conformance universe is enumerated from (Ss2Cells, OptionCells).              *)
EXTENDS Naturals, Sequences, FiniteSets, TLC
CeilDiv(a, b) == (a + b - 1) \div b
Max(a, b) == IF a > b THEN a ELSE b
Min(a, b) == IF a < b THEN a ELSE b

RECURSIVE IsPow(_, _)
IsPow(a, b) == IF a = 1 THEN TRUE ELSE IF a % b # 0 THEN FALSE ELSE IsPow(a \div b, b)
BgHasSuper(g, sparse, ss2, bk) ==
   IF g = 0 THEN TRUE
   ELSE IF ss2 THEN g \in {bk[1], bk[2]}
   ELSE IF g <= 1 \/ ~sparse THEN TRUE
   ELSE IF g % 2 = 0 THEN FALSE
   ELSE IsPow(g, 3) \/ IsPow(g, 5) \/ IsPow(g, 7)

\* ---- sparse_super2: the two backup slots s_backup_bgs
\* misc/mke2fs.c main(): fs_param.s_backup_bgs = <<1 if num_backup_sb >= 1, ~0 if num_backup_sb >= 2>> (~0 = NoGroup: above every group)
NoGroup == 2147483647
NumBackupSb == 0..2                                  \* parse_extended_opts rejects num_backup_sb > 2
Ss2Param(nb) == <<IF nb >= 1 THEN 1 ELSE 0, IF nb >= 2 THEN NoGroup ELSE 0>>
\* ext2fs_initialize "Set up the locations of the backup superblocks": clip both slots to the last group, drop a duplicate,
\* sort ascending -- so an empty slot (0) always comes FIRST and a single backup sits in slot [2]
Ss2Slots(nb, gdc) ==
   LET p  == Ss2Param(nb)
       a  == Min(p[1], gdc - 1)
       b0 == Min(p[2], gdc - 1)
       b  == IF a = b0 THEN 0 ELSE b0
   IN IF a > b THEN <<b, a>> ELSE <<a, b>>
\* ext2fs_initialize, last-group overhead: "we have to do this manually since super->s_backup_bgs hasn't been set up yet"
Ss2LastHasBg(nb, gdc) == IF gdc = 2 THEN Ss2Param(nb)[1] # 0 ELSE Ss2Param(nb)[2] # 0
Ss2Backups(slots) == {0} \cup ({slots[1], slots[2]} \ {0})

\* -E resize=<blocks> (misc/mke2fs.c parse_extended_opts): reserved GDT blocks for growing to rszto blocks; only a positive
\* result is stored in the parameter block (and switches resize_inode on); 0 = fall back to the library default
RszGdb(c) ==
   IF c.rszto = 0 THEN 0
   ELSE LET bpg  == IF c.bpg # 0 THEN c.bpg ELSE c.bs * 8
            dpb  == c.bs \div (IF c.is64 THEN 64 ELSE 32)
            gdc0 == CeilDiv(c.blocks, bpg)
            d0   == CeilDiv(gdc0, dpb)
            v    == CeilDiv(CeilDiv(c.rszto, bpg), dpb)
        IN IF v <= d0 THEN 0 ELSE Min(v - d0, c.bs \div 4)

\* cfg: [bs, blocks, iratio, isz, bpg (0 = default), resize, sparse, metabg, is64]
CalcRsvGdt(c, blocks, first, bpg, descblks) ==
   LET dpb == c.bs \div (IF c.is64 THEN 64 ELSE 32)
       maxb == blocks * 1024                               \* blocks < 2^22 here, so the 2^32 cap never applies
       rsvg == CeilDiv(maxb - first, bpg)
       gdb  == CeilDiv(rsvg, dpb) - descblks
   IN Min(gdb, c.bs \div 4)

RECURSIVE IpgFix(_, _, _)
IpgFix(c, ipg, gdc) ==          \* the ipg_retry loop
   LET itb0 == CeilDiv(ipg * c.isz, c.bs)
       i1   == (itb0 * c.bs) \div c.isz
       i2   == (Max(i1, 8) \div 8) * 8
       itb  == CeilDiv(i2 * c.isz, c.bs)
   IN IF i2 * gdc < 12 THEN IpgFix(c, ipg + 8, gdc) ELSE <<i2, itb>>

\* One evaluation of the body of ext2fs_initialize's retry loop at (blocks, bpg): what the C code does next.
\*   [k |-> "ipg"]                 inodes per group exceed blocksize*8: the code does bpg -= 8, blocks = requested, retry
\*   [k |-> "trim", blocks |-> b]  the last group is too small: blocks -= rem, retry
\*   [k |-> "err", err |-> e] / [k |-> "done", g |-> geometry]
Body(c, blocks, bpg) ==
   LET first == IF c.bs = 1024 THEN 1 ELSE 0
       gdc   == CeilDiv(blocks - first, bpg)
       dpb   == c.bs \div (IF c.is64 THEN 64 ELSE 32)
       descb == CeilDiv(gdc, dpb)
       \* mke2fs passes s_inodes_count computed from the *requested* size (or -N); when that is 0 (size below one inode_ratio, e.g.
       \* -T largefile on a tiny device) set_field() falls back to the library default: one inode per 4 KiB of the CURRENT block count
       inodesp == IF c.ninodes # 0 THEN c.ninodes ELSE (c.blocks * c.bs) \div c.iratio
       inodes == IF inodesp # 0 THEN inodesp ELSE blocks \div (IF c.bs >= 4096 THEN 1 ELSE 4096 \div c.bs)
       ipg0  == CeilDiv(inodes, gdc)
   IN IF gdc = 0 THEN [k |-> "err", err |-> "TOOSMALL"]                  \* "if (fs->group_desc_count == 0) EXT2_ET_TOOSMALL"
      ELSE IF ipg0 > c.bs * 8 THEN [k |-> "ipg"]
      ELSE
      LET ipgc == Min(ipg0, 65536 - c.bs \div c.isz)
          fx   == IpgFix(c, ipgc, gdc)
          ipg  == fx[1]  itb == fx[2]
          rszp == RszGdb(c)                                                   \* set_field(): a non-zero parameter wins over the computed default
          rsz  == c.resize \/ rszp > 0
          rsv0 == IF rszp > 0 THEN rszp ELSE IF rsz THEN CalcRsvGdt(c, blocks, first, bpg, descb) ELSE 0
          mbg  == c.metabg \/ (rsv0 + descb > (bpg * 3) \div 4)
          \* at the meta_bg switch the reserved GDT blocks go away.  Named deviation (c.dev): the code says
          \* set_field(s_reserved_gdt_blocks, 0), which keeps a non-zero PARAMETER value, so a count stored by -E resize= survives
          \* the switch although resize_inode is cleared (known finding rsv_gdt_survives_metabg_switch)
          rsv  == IF rsv0 + descb > (bpg * 3) \div 4 THEN (IF c.dev /\ rszp > 0 THEN rszp ELSE 0) ELSE rsv0
          ovh  == 3 + itb + rsv + (IF mbg THEN 1 ELSE descb)
          hasbg == IF c.ss2 THEN Ss2LastHasBg(c.nbsb, gdc) ELSE BgHasSuper(gdc - 1, c.sparse, FALSE, <<0, 0>>)
          slots == IF c.ss2 THEN Ss2Slots(c.nbsb, gdc) ELSE <<0, 0>>
          ovl  == 2 + itb + (IF hasbg THEN 1 + descb + rsv ELSE 0)
          rem  == (blocks - first) % bpg
      IN IF ovh > bpg THEN [k |-> "err", err |-> "TOO_MANY_INODES"]
         ELSE IF gdc = 1 /\ rem # 0 /\ rem < ovl THEN [k |-> "err", err |-> "TOOSMALL"]
         ELSE IF rem # 0 /\ rem < ovl + 50 THEN [k |-> "trim", blocks |-> blocks - rem]
         ELSE [k |-> "done", g |->
               [err |-> "", blocks |-> blocks, first |-> first, bpg |-> bpg, gdc |-> gdc, ipg |-> ipg,
                itb |-> itb, rsv |-> rsv, descb |-> descb, metabg |-> mbg, inodes |-> ipg * gdc,
                resize |-> rsz /\ ~(rsv0 + descb > (bpg * 3) \div 4),      \* the meta_bg switch clears resize_inode
                bgs |-> slots,
                backups |-> IF c.ss2 THEN Ss2Backups(slots)
                            ELSE {g \in 0..(gdc - 1) : BgHasSuper(g, c.sparse, FALSE, <<0, 0>>)}]]

\* What the loop makes of a group size p when it (re)starts at (requested blocks, p): a trim is followed by one more body
\* evaluation (after a trim rem = 0, so the only ways on are done / err / ipg).
AtBpg(c, p) ==
   LET r1 == Body(c, c.blocks, p) IN
   IF r1.k = "trim" THEN Body(c, r1.blocks, p) ELSE r1

\* The C loop in closed form (TLC recursion must stay shallow and the loop can take hundreds of rounds on inode-dense
\* configurations): every round that ends in "ipg" restarts at (requested blocks, bpg - 8), which is allowed while the
\* current bpg >= 256; the result is the outcome at the first group size of the chain p0, p0 - 8, ... that does not end in "ipg".
Retry(c, p0) ==
   LET r0 == AtBpg(c, p0) IN
   IF r0.k # "ipg" THEN (IF r0.k = "done" THEN r0.g ELSE [err |-> r0.err])
   ELSE LET chain == {p0 - 8 * k : k \in 1..(p0 \div 8)}
            reach == {p \in chain : p > 0 /\ p + 8 >= 256}                  \* the decrement to p happened at p + 8 >= 256
            stop  == {p \in reach : AtBpg(c, p).k # "ipg"}
        IN IF stop = {} THEN [err |-> "TOO_MANY_INODES"]
           ELSE LET p == CHOOSE q \in stop : \A r \in stop : q >= r
                    r == AtBpg(c, p)
                IN IF r.k = "done" THEN r.g ELSE [err |-> r.err]

Compute(c) == Retry(c, IF c.bpg # 0 THEN c.bpg ELSE Min(c.bs * 8, 65528))

\* ------------------------------------------------------------------ arithmetic invariants (model-checked over the lattice)
GeometryOK(c, g) ==
   g.err = "" =>
     /\ g.first = (IF c.bs = 1024 THEN 1 ELSE 0)
     /\ g.gdc = CeilDiv(g.blocks - g.first, g.bpg) /\ g.gdc >= 1                     \* groups cover the device exactly
     /\ g.blocks <= c.blocks                                                         \* trimming only ever shrinks
     /\ g.ipg % 8 = 0 /\ g.ipg <= c.bs * 8 /\ g.ipg >= 8
     /\ g.inodes = g.ipg * g.gdc /\ g.inodes >= 12                                   \* first_ino + 1
     /\ g.itb * c.bs >= g.ipg * c.isz /\ (g.itb - 1) * c.bs < g.ipg * c.isz          \* inode table exactly fits
     /\ g.rsv <= c.bs \div 4
     /\ g.descb = CeilDiv(g.gdc, c.bs \div (IF c.is64 THEN 64 ELSE 32))
     /\ 3 + g.itb + g.rsv + (IF g.metabg THEN 1 ELSE g.descb) <= g.bpg               \* a group can hold its own metadata
     /\ LET rem == (g.blocks - g.first) % g.bpg IN rem = 0 \/ rem >= 2 + g.itb + 50   \* last group large enough
     /\ 0 \in g.backups /\ g.backups \subseteq 0..(g.gdc - 1) /\ (g.gdc > 1 /\ (c.ss2 => c.nbsb >= 1) => 1 \in g.backups)
     /\ (c.ss2 => /\ Cardinality(g.backups) = 1 + Min(c.nbsb, g.gdc - 1)                  \* as many backups as asked for, while groups last
                  /\ g.bgs[1] <= g.bgs[2] /\ (g.bgs[1] = g.bgs[2] => g.bgs[2] = 0)          \* sorted pair, no duplicate
                  /\ g.bgs[2] < g.gdc
                  /\ g.backups = {b \in 0..(g.gdc - 1) : BgHasSuper(b, c.sparse, TRUE, g.bgs)}  \* closefs.c agrees with the slots
                  /\ (g.gdc >= 2 => (Ss2LastHasBg(c.nbsb, g.gdc) <=> (g.gdc - 1) \in g.backups)))  \* the overhead guess made before the slots exist is right
     /\ (~c.ss2 => g.bgs = <<0, 0>>)
     /\ (g.resize => ~g.metabg)
     /\ (~c.dev => (g.rsv > 0 => g.resize))                                           \* reserved GDT blocks only with a resize inode
     /\ (c.sparse /\ ~c.ss2 => \A b \in g.backups : b <= 1 \/ IsPow(b, 3) \/ IsPow(b, 5) \/ IsPow(b, 7))
     /\ (~c.sparse /\ ~c.ss2 => g.backups = 0..(g.gdc - 1))

\* ------------------------------------------------------------------ the resize inode (lib/ext2fs/res_gdt.c ext2fs_create_resize_inode)
\* Inode 7 owns one double-indirect block.  Its slot (descb + r) % (bs/4) maps reserved GDT block r (0-based), which sits right
\* behind the descriptor blocks of group 0; nothing else is mapped.
ResizeDindMap(bs, g) == {<<(g.descb + r) % (bs \div 4), g.first + 1 + g.descb + r>> : r \in 0..(g.rsv - 1)}
\* Each reserved GDT block is itself an indirect block that lists its own copy in every group holding a backup (all groups but 0
\* that ext2fs_bg_has_super names: powers of 3/5/7, every group, or the sparse_super2 slots), in ascending group order, without
\* gaps, as <<position, distance from the primary block>>.
ResizeBackupList(g) == LET B == g.backups \ {0} IN {<<Cardinality({h \in B : h <= b}), b * g.bpg>> : b \in B}
\* i_blocks (512-byte units): the double-indirect block, every reserved GDT block and every listed backup copy
ResizeIBlocks(bs, g) == (1 + g.rsv * Cardinality(g.backups)) * (bs \div 512)

\* ------------------------------------------------------------------ option families whose effect is one plain field
RECURSIVE Log2Of(_)
Log2Of(n) == IF n <= 1 THEN 0 ELSE 1 + Log2Of(n \div 2)
DefaultFlexSize == 16                                   \* mke2fs: profile "flex_bg_size", default 16
ReqLogFlex(flexfeature, G) == IF ~flexfeature THEN 0 ELSE Log2Of(IF G = 0 THEN DefaultFlexSize ELSE G)
\* -m <percent> (default 5): s_r_blocks_count = percent of the block count, rounded down.  When ext2fs_initialize trims the last
\* group it rescales through a double-precision ratio, which may lose up to two blocks (never gains one).  When the group size
\* was reduced on the way (inode-dense retry path) the count may stem from an intermediate, smaller block count: then only the
\* upper bound is claimed (see the check's assumptions).
ReqRBlocksOK(pct, reqblocks, finalblocks, rb, retried) ==
   IF retried THEN 100 * rb <= pct * finalblocks
   ELSE IF finalblocks = reqblocks THEN rb = (pct * reqblocks) \div 100
   ELSE 100 * rb <= pct * finalblocks /\ 100 * rb > pct * finalblocks - 200
\* journal size: -J size=<MiB> (misc/util.c figure_journal_size) or ext2fs_default_journal_size of the final block count
DefaultJournalBlocks(b) == IF b < 2048 THEN 0 ELSE IF b < 32768 THEN 1024 ELSE IF b < 262144 THEN 4096 ELSE IF b < 524288 THEN 8192 ELSE 16384
ReqJournalBlocks(jmib, bs, b) == IF b < 2048 THEN 0 ELSE IF jmib > 0 THEN (jmib * 1024) \div (bs \div 1024) ELSE DefaultJournalBlocks(b)
\* quota inodes: -O quota creates user and group (and project when the project feature is asked for) unless -E quotatype= names them
QuotaTypes == {"usr", "grp", "prj"}
ReqQuota(quotafeature, projectfeature, qt) ==
   IF ~quotafeature THEN {} ELSE IF qt # {} THEN qt ELSE {"usr", "grp"} \cup (IF projectfeature THEN {"prj"} ELSE {})

\* ------------------------------------------------------------------ boundary catalogue the conformance universe is enumerated from
GroupClasses == {1, 2, 3, 5}                            \* one group, two, three, more: where the sparse_super2 slots change shape
Ss2Cells == {[nb |-> nb, groups |-> n, resize |-> rz, slots |-> Ss2Slots(nb, n), lastbg |-> Ss2LastHasBg(nb, n)] :
                nb \in NumBackupSb, n \in GroupClasses, rz \in {0, 1}}
\* value lattices of the extended-option families (accepted boundary values; the first value beyond is listed as "reject")
OptionCells ==                                          \* numeric families
   {[fam |-> "flex", v |-> G] : G \in {1, 2, 4, 256}} \cup {[fam |-> "flex_reject", v |-> 3]}
   \cup {[fam |-> "mpct", v |-> m] : m \in {0, 1, 50}} \cup {[fam |-> "mpct_reject", v |-> 51]}
   \cup {[fam |-> "jsize", v |-> j] : j \in {1, 4}}
   \cup {[fam |-> "rszfactor", v |-> k] : k \in {3, 40, 80}}
   \cup {[fam |-> "nbsb_reject", v |-> 3]}
   \cup {[fam |-> f, v |-> 0] : f \in {"revision0", "jloc", "offset", "packed", "rootowner", "lazy0_nodiscard", "lazy1", "tree"}}
RaidCells == {[stride |-> 4, stripe |-> 8], [stride |-> 16, stripe |-> 0], [stride |-> 3, stripe |-> 7]}
QuotaCells == (SUBSET QuotaTypes) \ {{}}
\* -T usage types of the tree's tests/mke2fs.conf.in: inode_ratio / inode_size they set (0 = the [defaults] value stays)
UsageCells == {[name |-> "news", iratio |-> 4096, isz |-> 0], [name |-> "largefile", iratio |-> 1048576, isz |-> 0],
               [name |-> "largefile4", iratio |-> 4194304, isz |-> 0], [name |-> "hurd", iratio |-> 0, isz |-> 128]}

\* closed form of the backup set used by C20: powers of 3, 5, 7 below n
RECURSIVE Pows(_, _, _)
Pows(b, p, n) == IF p >= n THEN {} ELSE {p} \cup Pows(b, p * b, n)
ClosedBackups(n) == ({0, 1} \cap (0..(n - 1))) \cup Pows(3, 3, n) \cup Pows(5, 5, n) \cup Pows(7, 7, n)
BackupsClosedForm == \A n \in 1..400 : {g \in 0..(n - 1) : BgHasSuper(g, TRUE, FALSE, <<0, 0>>)} = ClosedBackups(n)
=============================================================================
