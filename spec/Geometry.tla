----------------------------- MODULE Geometry -----------------------------
(* lib/ext2fs/initialize.c (ext2fs_initialize) geometry arithmetic as mke2fs drives it, plus
   ext2fs_bg_has_super (closefs.c).  Properties C07 and C20.  All quantities < 2^31 (images <= 64 MiB).
   cfg record: [bs, blocks (requested), iratio, isz, bpg (0 = default), resize, sparse, ss2, metabg, is64, ninodes (0 = from ratio)]
   Compute(cfg) = [err, blocks, first, bpg, gdc, ipg, itb, rsv, descb, metabg, inodes, backups]                     *)
EXTENDS Naturals, Sequences, FiniteSets, TLC
CeilDiv(a, b) == (a + b - 1) \div b
Max(a, b) == IF a > b THEN a ELSE b
Min(a, b) == IF a < b THEN a ELSE b

RECURSIVE IsPow(_, _)
IsPow(a, b) == IF a = 1 THEN TRUE ELSE IF a % b # 0 THEN FALSE ELSE IsPow(a \div b, b)
BgHasSuper(g, sparse, ss2, bk) ==
   IF g = 0 THEN TRUE
   ELSE IF ss2 THEN g \in {bk[1], bk[2]}
   ELSE IF g <= 1 \/ ~sparse THEN TRUE
   ELSE IF g % 2 = 0 THEN FALSE
   ELSE IsPow(g, 3) \/ IsPow(g, 5) \/ IsPow(g, 7)

\* cfg: [bs, blocks, iratio, isz, bpg (0 = default), resize, sparse, metabg, is64]
CalcRsvGdt(c, blocks, first, bpg, descblks) ==
   LET dpb == c.bs \div (IF c.is64 THEN 64 ELSE 32)
       maxb == blocks * 1024                               \* blocks < 2^22 here, so the 2^32 cap never applies
       rsvg == CeilDiv(maxb - first, bpg)
       gdb  == CeilDiv(rsvg, dpb) - descblks
   IN Min(gdb, c.bs \div 4)

RECURSIVE IpgFix(_, _, _)
IpgFix(c, ipg, gdc) ==          \* the ipg_retry loop
   LET itb0 == CeilDiv(ipg * c.isz, c.bs)
       i1   == (itb0 * c.bs) \div c.isz
       i2   == (Max(i1, 8) \div 8) * 8
       itb  == CeilDiv(i2 * c.isz, c.bs)
   IN IF i2 * gdc < 12 THEN IpgFix(c, ipg + 8, gdc) ELSE <<i2, itb>>

\* One evaluation of the body of ext2fs_initialize's retry loop at (blocks, bpg): what the C code does next.
\*   [k |-> "ipg"]                 inodes per group exceed blocksize*8: the code does bpg -= 8, blocks = requested, retry
\*   [k |-> "trim", blocks |-> b]  the last group is too small: blocks -= rem, retry
\*   [k |-> "err", err |-> e] / [k |-> "done", g |-> geometry]
Body(c, blocks, bpg) ==
   LET first == IF c.bs = 1024 THEN 1 ELSE 0
       gdc   == CeilDiv(blocks - first, bpg)
       dpb   == c.bs \div (IF c.is64 THEN 64 ELSE 32)
       descb == CeilDiv(gdc, dpb)
       inodes == IF c.ninodes # 0 THEN c.ninodes ELSE (c.blocks * c.bs) \div c.iratio   \* mke2fs passes s_inodes_count computed from the *requested* size (or -N)
       ipg0  == CeilDiv(inodes, gdc)
   IN IF gdc = 0 THEN [k |-> "err", err |-> "TOOSMALL"]                  \* "if (fs->group_desc_count == 0) EXT2_ET_TOOSMALL"
      ELSE IF ipg0 > c.bs * 8 THEN [k |-> "ipg"]
      ELSE
      LET ipgc == Min(ipg0, 65536 - c.bs \div c.isz)
          fx   == IpgFix(c, ipgc, gdc)
          ipg  == fx[1]  itb == fx[2]
          rsv0 == IF c.resize THEN CalcRsvGdt(c, blocks, first, bpg, descb) ELSE 0
          mbg  == c.metabg \/ (rsv0 + descb > (bpg * 3) \div 4)
          rsv  == IF rsv0 + descb > (bpg * 3) \div 4 THEN 0 ELSE rsv0
          ovh  == 3 + itb + rsv + (IF mbg THEN 1 ELSE descb)
          hasbg == IF c.ss2 THEN TRUE ELSE BgHasSuper(gdc - 1, c.sparse, FALSE, <<0, 0>>)   \* mke2fs passes s_backup_bgs = {1, ~0}
          ovl  == 2 + itb + (IF hasbg THEN 1 + descb + rsv ELSE 0)
          rem  == (blocks - first) % bpg
      IN IF ovh > bpg THEN [k |-> "err", err |-> "TOO_MANY_INODES"]
         ELSE IF gdc = 1 /\ rem # 0 /\ rem < ovl THEN [k |-> "err", err |-> "TOOSMALL"]
         ELSE IF rem # 0 /\ rem < ovl + 50 THEN [k |-> "trim", blocks |-> blocks - rem]
         ELSE [k |-> "done", g |->
               [err |-> "", blocks |-> blocks, first |-> first, bpg |-> bpg, gdc |-> gdc, ipg |-> ipg,
                itb |-> itb, rsv |-> rsv, descb |-> descb, metabg |-> mbg, inodes |-> ipg * gdc,
                backups |-> IF c.ss2 THEN {0, Min(1, gdc - 1), gdc - 1}
                            ELSE {g \in 0..(gdc - 1) : BgHasSuper(g, c.sparse, FALSE, <<0, 0>>)}]]

\* What the loop makes of a group size p when it (re)starts at (requested blocks, p): a trim is followed by one more body
\* evaluation (after a trim rem = 0, so the only ways on are done / err / ipg).
AtBpg(c, p) ==
   LET r1 == Body(c, c.blocks, p) IN
   IF r1.k = "trim" THEN Body(c, r1.blocks, p) ELSE r1

\* The C loop in closed form (TLC recursion must stay shallow and the loop can take hundreds of rounds on inode-dense
\* configurations): every round that ends in "ipg" restarts at (requested blocks, bpg - 8), which is allowed while the
\* current bpg >= 256; the result is the outcome at the first group size of the chain p0, p0 - 8, ... that does not end in "ipg".
Retry(c, p0) ==
   LET r0 == AtBpg(c, p0) IN
   IF r0.k # "ipg" THEN (IF r0.k = "done" THEN r0.g ELSE [err |-> r0.err])
   ELSE LET chain == {p0 - 8 * k : k \in 1..(p0 \div 8)}
            reach == {p \in chain : p > 0 /\ p + 8 >= 256}                  \* the decrement to p happened at p + 8 >= 256
            stop  == {p \in reach : AtBpg(c, p).k # "ipg"}
        IN IF stop = {} THEN [err |-> "TOO_MANY_INODES"]
           ELSE LET p == CHOOSE q \in stop : \A r \in stop : q >= r
                    r == AtBpg(c, p)
                IN IF r.k = "done" THEN r.g ELSE [err |-> r.err]

Compute(c) == Retry(c, IF c.bpg # 0 THEN c.bpg ELSE Min(c.bs * 8, 65528))

\* ------------------------------------------------------------------ arithmetic invariants (model-checked over the lattice)
GeometryOK(c, g) ==
   g.err = "" =>
     /\ g.first = (IF c.bs = 1024 THEN 1 ELSE 0)
     /\ g.gdc = CeilDiv(g.blocks - g.first, g.bpg) /\ g.gdc >= 1                     \* groups cover the device exactly
     /\ g.blocks <= c.blocks                                                         \* trimming only ever shrinks
     /\ g.ipg % 8 = 0 /\ g.ipg <= c.bs * 8 /\ g.ipg >= 8
     /\ g.inodes = g.ipg * g.gdc /\ g.inodes >= 12                                   \* first_ino + 1
     /\ g.itb * c.bs >= g.ipg * c.isz /\ (g.itb - 1) * c.bs < g.ipg * c.isz          \* inode table exactly fits
     /\ g.rsv <= c.bs \div 4
     /\ g.descb = CeilDiv(g.gdc, c.bs \div (IF c.is64 THEN 64 ELSE 32))
     /\ 3 + g.itb + g.rsv + (IF g.metabg THEN 1 ELSE g.descb) <= g.bpg               \* a group can hold its own metadata
     /\ LET rem == (g.blocks - g.first) % g.bpg IN rem = 0 \/ rem >= 2 + g.itb + 50   \* last group large enough
     /\ 0 \in g.backups /\ g.backups \subseteq 0..(g.gdc - 1) /\ (g.gdc > 1 => 1 \in g.backups)
     /\ (c.ss2 => Cardinality(g.backups) <= 3)
     /\ (c.sparse /\ ~c.ss2 => \A b \in g.backups : b <= 1 \/ IsPow(b, 3) \/ IsPow(b, 5) \/ IsPow(b, 7))
     /\ (~c.sparse /\ ~c.ss2 => g.backups = 0..(g.gdc - 1))

\* closed form of the backup set used by C20: powers of 3, 5, 7 below n
RECURSIVE Pows(_, _, _)
Pows(b, p, n) == IF p >= n THEN {} ELSE {p} \cup Pows(b, p * b, n)
ClosedBackups(n) == ({0, 1} \cap (0..(n - 1))) \cup Pows(3, 3, n) \cup Pows(5, 5, n) \cup Pows(7, 7, n)
BackupsClosedForm == \A n \in 1..400 : {g \in 0..(n - 1) : BgHasSuper(g, TRUE, FALSE, <<0, 0>>)} = ClosedBackups(n)
=============================================================================
