------------------------------ MODULE Ext4Abs ------------------------------
(***************************************************************************)
(* The independent statement of the ext2/3/4 consistency invariants        *)
(* (DESIGN.md section 5, C02).  A state `st` is the projection emitted by   *)
(* reader/ext4read.py (DESIGN.md Appendix A.2): JSON objects are records,   *)
(* JSON arrays are sequences, all integers are below 2^31.                  *)
(*                                                                         *)
(* Division of labour.  Everything set-theoretic -- which blocks are       *)
(* claimed by whom, disjointness of the claims, bitmaps = fixed metadata   *)
(* plus claims, per-group counts computed from the bitmaps, link counts    *)
(* computed from the directory entries, reachability from the root -- is   *)
(* computed HERE from the raw facts of the projection.  Byte-level         *)
(* well-formedness (extent headers, rec_len chains, htree hash order,      *)
(* checksums) is decided by the reader, which names every rule that failed *)
(* (`shape_err`, `err`, `csum_err`, `*_ok`); Shapes and Csums only collect  *)
(* those flags.                                                            *)
(*                                                                         *)
(* Cost.  The reader sorts; this module verifies sortedness and then       *)
(* checks adjacent elements only, so no check is quadratic.  The reader    *)
(* also supplies three certificates that are *verified*, never trusted     *)
(* (CertOK): the flat sorted list of claims, the directory references      *)
(* sorted by target inode (gives link counts as index differences) and the *)
(* depth of every directory below the root (gives reachability by          *)
(* induction on the depth).                                                *)
(***************************************************************************)
EXTENDS Integers, Sequences, FiniteSets, TLC

Rng(s) == {s[k] : k \in DOMAIN s}

\* the set of integers covered by a sequence of inclusive ranges <<lo, hi>>
RSet(rs) == UNION {r[1]..r[2] : r \in Rng(rs)}

Max2(a, b) == IF a >= b THEN a ELSE b
Min2(a, b) == IF a <= b THEN a ELSE b

Feature(st, f) == f \in Rng(st.geo.features)

(***************************************************************************)
(* Geometry                                                                *)
(***************************************************************************)
First(st)    == st.geo.first
Blocks(st)   == st.geo.blocks
Ratio(st)    == st.geo.cr
NCl(st)      == st.geo.ncl                      \* clusters that really exist
ClOf(st, b)  == (b - First(st)) \div Ratio(st)  \* bit index of the cluster holding block b
FirstIno(st) == st.geo.first_ino
Groups(st)   == st.geo.gdc

N(st)        == Len(st.inodes)
InUse(st, i) == i.links > 0 \/ i.ino < FirstIno(st)
UsedIx(st)   == {k \in 1..N(st) : InUse(st, st.inodes[k])}

\* lexicographic order on the tuples used by the certificates
Lt3(a, b) == \/ a[1] < b[1]
             \/ a[1] = b[1] /\ a[2] < b[2]
             \/ a[1] = b[1] /\ a[2] = b[2] /\ a[3] < b[3]

(***************************************************************************)
(* Claims: which in-use inode (or shared xattr block) owns which blocks.   *)
(* A claim is <<lo, hi, ino, class, ix, pos>>: blocks lo..hi are entry pos *)
(* of the class list (1 data, 2 index, 3 ind) of the inode record ix; a    *)
(* class 4 claim <<b, b, 0, 4, 0, 0>> is an xattr block named by at least  *)
(* one in-use inode.                                                       *)
(***************************************************************************)
OwnList(i, c) == CASE c = 1 -> i.own.data [] c = 2 -> i.own.index [] c = 3 -> i.own.ind

NOwn(st, k) == LET i == st.inodes[k] IN
               IF InUse(st, i) THEN Len(i.own.data) + Len(i.own.index) + Len(i.own.ind) ELSE 0

XUsed(st) == {st.inodes[k].own.xattr : k \in UsedIx(st)} \ {0}

XRefs(st) == {<<st.inodes[k].own.xattr, st.inodes[k].ino>> : k \in {j \in UsedIx(st) : st.inodes[j].own.xattr # 0}}

EntryOf(st, r) == st.dirs[r[2]].ents[r[3]]

\* a directory entry is the tuple <<inode number, file type, index of the inode record (0 = none), dot, name>>
\* with dot = 1 for ".", 2 for "..", 0 otherwise (lib/absstate.py drops the name before TLC sees the state)
EIno(en) == en[1]
EFt(en)  == en[2]
EIx(en)  == en[3]
EDot(en) == en[4]

\* strict lexicographic order on the first n components
LexLt(a, b, n) == \E j \in 1..n : a[j] < b[j] /\ \A m \in 1..(j - 1) : a[m] = b[m]

(***************************************************************************)
(* CertOK: the reader's certificates are what they claim to be.  A failure *)
(* here is a defect of the reader, not of the filesystem.  Everything is   *)
(* linear in the size of the state: lists are strictly sorted (hence free  *)
(* of duplicates), every element is checked against the raw fact it cites, *)
(* and cumulative offsets prove that nothing is missing.                   *)
(***************************************************************************)
CertOK(st) ==
    LET inos == st.inodes
        cl   == st.claims
        rf   == st.refs
        xr   == st.xrefs
        n    == Len(inos)
        nd   == Len(st.dirs)
        InoNos == {inos[k].ino : k \in DOMAIN inos}
        Targets == {rf[k][1] : k \in DOMAIN rf}
        XU   == XUsed(st)
    IN  /\ \A k \in 1..(n - 1) : inos[k].ino < inos[k + 1].ino
        \* ---- claims = the own lists of the in-use inodes + the xattr blocks they name
        /\ \A k \in 1..(Len(cl) - 1) : LexLt(cl[k], cl[k + 1], 6)
        /\ \A k \in DOMAIN cl :
             LET c == cl[k] IN
             IF c[4] = 4 THEN c[1] = c[2] /\ c[3] = 0 /\ c[1] \in XU
             ELSE /\ c[4] \in 1..3 /\ c[5] \in 1..n
                  /\ inos[c[5]].ino = c[3] /\ InUse(st, inos[c[5]])
                  /\ c[6] \in DOMAIN OwnList(inos[c[5]], c[4])
                  /\ OwnList(inos[c[5]], c[4])[c[6]] = <<c[1], c[2]>>
        /\ n > 0
        /\ inos[1].coff = 0
        /\ \A k \in 1..(n - 1) : inos[k + 1].coff = inos[k].coff + NOwn(st, k)
        /\ Len(cl) = inos[n].coff + NOwn(st, n) + Cardinality(XU)
        \* ---- xrefs = the (xattr block, in-use inode) pairs
        /\ \A k \in 1..(Len(xr) - 1) : LexLt(xr[k], xr[k + 1], 2)
        /\ Rng(xr) = XRefs(st)
        /\ \A x \in Rng(st.xblocks) :
             IF x.xlo <= x.xhi
             THEN /\ x.xlo >= 1 /\ x.xhi <= Len(xr)
                  /\ xr[x.xlo][1] = x.blk /\ xr[x.xhi][1] = x.blk
                  /\ (x.xlo = 1 \/ xr[x.xlo - 1][1] < x.blk)
                  /\ (x.xhi = Len(xr) \/ xr[x.xhi + 1][1] > x.blk)
             ELSE x.blk \notin XU
        /\ XU \subseteq {x.blk : x \in Rng(st.xblocks)}
        \* ---- the fixed-metadata list
        /\ \A k \in 1..(Len(st.fixed_list) - 1) : st.fixed_list[k][1] <= st.fixed_list[k + 1][1]
        /\ Rng(st.fixed_list) =
             UNION {{<<r[1], r[2], c>> : r \in Rng(st.fixed[c])} : c \in DOMAIN st.fixed}
        \* ---- refs = all directory entries, sorted by the inode they name
        /\ \A k \in 1..(Len(rf) - 1) : Lt3(rf[k], rf[k + 1])
        /\ \A k \in DOMAIN rf :
             /\ rf[k][2] \in 1..nd /\ rf[k][3] \in DOMAIN st.dirs[rf[k][2]].ents
             /\ EIno(EntryOf(st, rf[k])) = rf[k][1]
        /\ (nd = 0 => Len(rf) = 0)
        /\ (nd > 0 => /\ st.dirs[1].eoff = 0
                      /\ \A d \in 1..(nd - 1) : st.dirs[d + 1].eoff = st.dirs[d].eoff + Len(st.dirs[d].ents)
                      /\ Len(rf) = st.dirs[nd].eoff + Len(st.dirs[nd].ents))
        /\ \A k \in DOMAIN inos :
             LET i == inos[k] IN
             IF i.rlo <= i.rhi
             THEN /\ i.rlo >= 1 /\ i.rhi <= Len(rf)
                  /\ rf[i.rlo][1] = i.ino /\ rf[i.rhi][1] = i.ino
                  /\ (i.rlo = 1 \/ rf[i.rlo - 1][1] < i.ino)
                  /\ (i.rhi = Len(rf) \/ rf[i.rhi + 1][1] > i.ino)
             ELSE i.ino \notin Targets
        /\ \A d \in DOMAIN st.dirs :
             /\ st.dirs[d].ix \in DOMAIN inos /\ inos[st.dirs[d].ix].ino = st.dirs[d].dir
             /\ \A e \in DOMAIN st.dirs[d].ents :
                  LET en == st.dirs[d].ents[e] IN
                  IF EIx(en) = 0 THEN EIno(en) \notin InoNos
                  ELSE EIx(en) \in DOMAIN inos /\ inos[EIx(en)].ino = EIno(en)
        /\ \A d \in 1..(nd - 1) : st.dirs[d].dir < st.dirs[d + 1].dir

(***************************************************************************)
(* 1. InRange                                                              *)
(***************************************************************************)
InRange(st) ==
    /\ \A c \in Rng(st.claims) : First(st) <= c[1] /\ c[1] <= c[2] /\ c[2] < Blocks(st)
    /\ \A k \in UsedIx(st) : st.inodes[k].range_err = <<>>

(***************************************************************************)
(* 2. NotFixedMeta                                                         *)
(***************************************************************************)
FixedSet(st) == UNION {RSet(st.fixed[c]) : c \in DOMAIN st.fixed}

NotFixedMeta(st) ==
    LET F  == FixedSet(st)
        fl == st.fixed_list
    IN  /\ \A c \in Rng(st.claims) : \A b \in c[1]..c[2] : b \notin F
        \* the fixed pieces do not overlap one another either
        /\ \A k \in 1..(Len(fl) - 1) : fl[k][2] < fl[k + 1][1]
        /\ \A f \in Rng(fl) : f[1] <= f[2] /\ f[2] < Blocks(st)

(***************************************************************************)
(* 3. SingleOwner                                                          *)
(* Claims are sorted by first block (verified by CertOK), so the claims    *)
(* are pairwise disjoint iff neighbours are.  With bigalloc the unit of    *)
(* ownership is the cluster: neighbours of different owners must not meet  *)
(* in one cluster.  A shared xattr block is one claim whose h_refcount is  *)
(* the number of in-use inodes pointing at it.                             *)
(***************************************************************************)
AdjDisjoint(rs) == \A k \in 1..(Len(rs) - 1) : rs[k][2] < rs[k + 1][1]

SingleOwner(st) ==
    LET cl == st.claims IN
    /\ \/ Feature(st, "shared_blocks")     \* the read-only feature that declares blocks shared between inodes
       \/ \A k \in 1..(Len(cl) - 1) :
            /\ cl[k][2] < cl[k + 1][1]
            /\ \/ ClOf(st, cl[k][2]) < ClOf(st, cl[k + 1][1])
               \/ cl[k][3] = cl[k + 1][3] /\ cl[k][3] # 0
    /\ \A k \in UsedIx(st) :
         LET o == st.inodes[k].own IN AdjDisjoint(o.data) /\ AdjDisjoint(o.index) /\ AdjDisjoint(o.ind)
    \* h_refcount of a shared xattr block = number of in-use inodes naming it (its slice of xrefs)
    /\ \A x \in Rng(st.xblocks) : x.xlo <= x.xhi => x.refcount = x.xhi - x.xlo + 1

(***************************************************************************)
(* 4. BitmapsExact                                                         *)
(***************************************************************************)
BBits(st) == RSet(st.bbitmap)
IBits(st) == RSet(st.ibitmap)

ExpectedBBits(st) ==
    UNION {ClOf(st, c[1])..ClOf(st, c[2]) : c \in {x \in Rng(st.claims) : x[1] >= First(st)}}
    \cup UNION {ClOf(st, f[1])..ClOf(st, f[2]) : f \in {x \in Rng(st.fixed_list) : x[1] >= First(st)}}
    \cup NCl(st)..(Groups(st) * st.geo.cpg - 1)          \* padding of a short last group

ExpectedIBits(st) == {st.inodes[k].ino : k \in UsedIx(st)} \cup 1..(FirstIno(st) - 1)

BitmapsExact(st) ==
    /\ BBits(st) = ExpectedBBits(st)
    /\ IBits(st) = ExpectedIBits(st)

(***************************************************************************)
(* 5. GroupCounts (per group; the global superblock counts are a designed  *)
(* tolerance and deliberately absent)                                      *)
(***************************************************************************)
GroupCounts(st) ==
    LET cpg == st.geo.cpg
        ipg == st.geo.ipg
        BB  == BBits(st)
        IB  == IBits(st)
        DirInos == {st.inodes[k].ino : k \in {j \in UsedIx(st) : st.inodes[j].type = "dir"}}
        csum == st.geo.csum_feature
    IN  /\ Len(st.gd) = Groups(st)
        /\ \A k \in DOMAIN st.gd :
            LET d   == st.gd[k]
                g   == k - 1
                clo == g * cpg
                chi == Min2((g + 1) * cpg, NCl(st)) - 1
                ilo == g * ipg + 1
                ihi == (g + 1) * ipg
                usedI == {n \in ilo..ihi : n \in IB}
                fl  == Rng(d.flags)
            IN  /\ d.g = g
                /\ d.free_b = (chi - clo + 1) - Cardinality({c \in clo..chi : c \in BB})
                /\ d.free_i = ipg - Cardinality(usedI)
                /\ d.dirs = Cardinality({n \in ilo..ihi : n \in DirInos})
                /\ IF csum
                   THEN /\ d.unused <= ipg /\ d.unused <= d.free_i
                        /\ \A n \in usedI : n <= ihi - d.unused
                        /\ ("INODE_UNINIT" \in fl => usedI = {})
                   ELSE /\ "INODE_UNINIT" \notin fl /\ "BLOCK_UNINIT" \notin fl /\ d.unused = 0
                /\ (k = Groups(st) => "BLOCK_UNINIT" \notin fl)

(***************************************************************************)
(* 6. Links                                                                *)
(***************************************************************************)
FtOf(t) == CASE t = "reg" -> 1 [] t = "dir" -> 2 [] t = "chr" -> 3 [] t = "blk" -> 4
             [] t = "fifo" -> 5 [] t = "sock" -> 6 [] t = "lnk" -> 7 [] OTHER -> 0

NRefs(i) == IF i.rlo <= i.rhi THEN i.rhi - i.rlo + 1 ELSE 0

LinkMax == 65000

\* inodes that pass 4 of e2fsck, and the property, do not require to be named by a directory
Unlinked(st, i) ==
    \/ i.ino # 2 /\ i.ino < FirstIno(st)
    \/ i.ino = st.sb.orphan_file_ino
    \/ i.ino = st.sb.prj_quota

Links(st) ==
    LET inos == st.inodes
        rf   == st.refs
        DirIx == {st.dirs[d].ix : d \in DOMAIN st.dirs}
        filetype == Feature(st, "filetype")
    IN
    \* every directory entry names an in-use inode of the recorded type
    /\ \A d \in DOMAIN st.dirs : \A e \in DOMAIN st.dirs[d].ents :
         LET en == st.dirs[d].ents[e] IN
         /\ EIx(en) # 0
         /\ InUse(st, inos[EIx(en)])
         /\ inos[EIx(en)].bit
         /\ (EDot(en) = 0 => (EIno(en) = 2 \/ EIno(en) >= FirstIno(st)))
         /\ (EFt(en) = 0 \/ (filetype /\ EFt(en) = FtOf(inos[EIx(en)].type)))
         /\ ~ inos[EIx(en)].ea_inode
    \* every in-use directory inode was read as a directory
    /\ \A k \in UsedIx(st) : (inos[k].type = "dir" /\ ~Unlinked(st, inos[k])) => k \in DirIx
    \* the root exists
    /\ \E d \in DOMAIN st.dirs : st.dirs[d].dir = 2
    \* '.' is the directory itself, '..' its unique parent, and the depth certificate proves that the
    \* chain of parents ends at the root
    /\ \A d \in DOMAIN st.dirs :
         LET D == st.dirs[d]
             i == inos[D.ix]
             up == {k \in i.rlo..i.rhi : EDot(EntryOf(st, rf[k])) = 0}   \* entries naming D from a parent
         IN  /\ D.dot = D.dir
             /\ IF D.dir = 2
                THEN up = {} /\ D.dotdot = 2 /\ D.depth = 0
                ELSE /\ Cardinality(up) = 1
                     /\ LET k == CHOOSE k \in up : TRUE
                            P == st.dirs[rf[k][2]]
                        IN  D.dotdot = P.dir /\ P.depth >= 0 /\ D.depth = P.depth + 1
    \* link counts
    /\ \A k \in UsedIx(st) :
         LET i == inos[k]
             n == NRefs(i)
         IN  \/ Unlinked(st, i)
             \/ i.ea_inode /\ i.ea_refs > 0 /\ n = 0 /\ i.links = 1
             \/ /\ ~(i.ea_inode /\ i.ea_refs > 0)
                /\ n > 0
                /\ \/ i.links = n
                   \/ i.type = "dir" /\ i.links = 1 /\ n > LinkMax
                   \/ i.type = "dir" /\ i.links = 1 /\ n > 1 /\ "INDEX" \in Rng(i.flags)

(***************************************************************************)
(* 7. Shapes, 8. Csums: the reader's named byte-level facts                 *)
(***************************************************************************)
Shapes(st) ==
    /\ st.sb_err = <<>> /\ st.gd_err = <<>> /\ st.inode_err = <<>>
    /\ \A k \in UsedIx(st) : st.inodes[k].shape_err = <<>>
    /\ \A d \in DOMAIN st.dirs : st.dirs[d].err = <<>>
    /\ \A x \in Rng(st.xblocks) : x.xlo <= x.xhi => x.err = <<>> /\ x.hash_ok
    /\ \A k \in DOMAIN st.gd : st.gd[k].bb_pad_ok
    /\ st.journal.err = <<>>
    /\ st.orphans.err = <<>> /\ st.orphans.file.err = <<>>
    /\ st.mmp.err = <<>>
    /\ \A q \in Rng(st.quota) : q.err = <<>>

Csums(st) ==
    /\ st.sb.csum_ok
    /\ \A k \in DOMAIN st.gd : st.gd[k].csum_ok /\ st.gd[k].bbcsum_ok /\ st.gd[k].ibcsum_ok
    /\ \A k \in UsedIx(st) : st.inodes[k].csum_ok /\ st.inodes[k].csum_err = <<>>
    /\ st.free_inode_csum_err = <<>>          \* initialised but unused inodes carry a checksum too
    /\ \A d \in DOMAIN st.dirs : st.dirs[d].csum_err = <<>>
    /\ \A x \in Rng(st.xblocks) : x.xlo <= x.xhi => x.csum_ok
    /\ st.journal.csum_ok
    /\ st.orphans.file.csum_err = <<>>
    /\ st.mmp.csum_ok /\ st.mmp.magic_ok

(***************************************************************************)
(* Consistent                                                              *)
(***************************************************************************)
Usable(st) == "fatal" \notin DOMAIN st /\ "reader_err" \notin DOMAIN st

Conjuncts ==
    <<"InRange", "NotFixedMeta", "SingleOwner", "BitmapsExact", "GroupCounts", "Links", "Shapes", "Csums">>

Holds(st, name) ==
    CASE name = "InRange"      -> InRange(st)
      [] name = "NotFixedMeta" -> NotFixedMeta(st)
      [] name = "SingleOwner"  -> SingleOwner(st)
      [] name = "BitmapsExact" -> BitmapsExact(st)
      [] name = "GroupCounts"  -> GroupCounts(st)
      [] name = "Links"        -> Links(st)
      [] name = "Shapes"       -> Shapes(st)
      [] name = "Csums"        -> Csums(st)

Consistent(st) ==
    /\ Usable(st)
    /\ CertOK(st)
    /\ InRange(st)
    /\ NotFixedMeta(st)
    /\ SingleOwner(st)
    /\ BitmapsExact(st)
    /\ GroupCounts(st)
    /\ Links(st)
    /\ Shapes(st)
    /\ Csums(st)

\* names of the failing conjuncts; "Fatal" = no usable superblock, "Cert" = reader certificate wrong
\* (the remaining conjuncts are not evaluated in those two cases)
FailedConjuncts(st) ==
    IF ~Usable(st) THEN {"Fatal"}
    ELSE IF ~CertOK(st) THEN {"Cert"}
    ELSE {Conjuncts[k] : k \in {j \in DOMAIN Conjuncts : ~Holds(st, Conjuncts[j])}}

(***************************************************************************)
(* Tree: what a user can observe through the namespace (C05, C08, C11,     *)
(* C18).  Representation bits (flags, block numbers, inode numbers) are    *)
(* not part of it; hard links appear once per path with equal nlink.       *)
(***************************************************************************)
TreeOf(st) == IF Usable(st) THEN {[t EXCEPT !.ino = 0] : t \in Rng(st.tree)} ELSE {}

TreeEq(a, b) == Usable(a) /\ Usable(b) /\ TreeOf(a) = TreeOf(b)

=============================================================================
