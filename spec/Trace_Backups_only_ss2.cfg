SPECIFICATION TraceSpec
CONSTANTS
  MaxG = 128
  DevTuneMasterOnly = FALSE
  DevFsckIgnoresFeatDiff = FALSE
  DevFlushSkipsLast = FALSE
  DevResizeKeepsOldGdt = FALSE
  DevResizeMovesSoleBackup = FALSE
  DevSearchGuesses8xBs = FALSE
  DevBackupSearchIgnoresSs2 = TRUE
INVARIANT TypeOK
INVARIANT InvCurrent
INVARIANT InvBackupSet
INVARIANT Ss2Shape
POSTCONDITION TraceAccepted
CHECK_DEADLOCK FALSE
