INIT Init
NEXT Next
CONSTANTS
  DevRewriteSkipsOrphanFile = FALSE
  DevJournalOffKeepsOrphanFile = FALSE
  DevDirIndexOffNoFsck = FALSE
CHECK_DEADLOCK FALSE
