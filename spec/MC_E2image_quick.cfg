SPECIFICATION Spec
CONSTANTS
  NB = 5
  L2N = 2
  RPB = 4
  CacheN = 2
  MClasses = {"dirdata", "filedata", "eadata", "free"}
  AllModes = {FALSE, TRUE}
  DevEaInodeDataSkipped = FALSE
  DevLastByteZeroed = FALSE
  DevL1VsVirtualSize = FALSE
INVARIANT TypeOK
INVARIANT DiscoveryOK
INVARIANT RawContract
INVARIANT WriterSane
INVARIANT MapExact
INVARIANT RefcountExact
INVARIANT L2TablesDistinct
INVARIANT ConvertEqualsRaw
CHECK_DEADLOCK FALSE
