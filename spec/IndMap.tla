------------------------------ MODULE IndMap ------------------------------
(* Property C09, implementation-shaped: lib/ext2fs/punch.c ext2fs_punch_ind() / ind_punch() -- the range arithmetic of
   hole punching and truncation in block-mapped files -- transcribed with the format constants as parameters:
   ND direct slots (12 in the format) and A pointers per indirect block (blocksize / 4).  The code's arithmetic is
   parametric in both, so the scaled model (ND = 2, A = 2 ...) is faithful, and the same module evaluates the real
   constants (12, 256) for conformance (Trace_IndMap).

   State: `map` = the set of logical blocks that are mapped.  Punch(s, e) removes what the transcription says and
   records it in `freed`; the property is that exactly map \cap s..e leaves the map (MapUpdatedExactly) -- the blocks
   freed are the blocks leaving the map (plus indirect blocks that became empty, which the driver checks against the
   block bitmap).  e = Inf stands for ~0ULL (truncation): count = BLK_T_MAX - start.

   DevIndPunchRange = TRUE is the literal arithmetic of the pinned tree (genuine defect, DESIGN 7 row 8):
     - the recursive call passes `count - offset` (relative to the wrong origin; as unsigned it wraps when
       offset > count, modelled by Huge), and
     - the level loop continues with `count > max` where `start + count > max` is meant.
   FALSE is the repaired arithmetic (fixes/C09_ind_punch_range.patch).                                              *)
EXTENDS Integers, FiniteSets, TLC
CONSTANTS ND, A, Inf, DevIndPunchRange, MaxPunches

Pow(l) == IF l = 0 THEN 1 ELSE IF l = 1 THEN A ELSE IF l = 2 THEN A * A ELSE A * A * A
Total == ND + A + A * A + A * A * A
Huge == 2000000000          \* unsigned wrap-around of `count - offset`; also BLK_T_MAX for truncation

\* ind_punch() over one array of `max` slots at `level`; the first slot covers logical block `base`; start / count are
\* relative to the array.  A slot is a null pointer iff nothing below it is mapped (then the code skips it).
\* Returns the set of (absolute) logical blocks whose mapping is removed.
RECURSIVE IndPunch(_, _, _, _, _, _)
IndPunch(M, level, base, start, count, max) ==
   UNION { LET offset == i * Pow(level)
               lo == base + offset
               hi == lo + Pow(level) - 1
           IN IF offset >= start + count THEN {}                         \* "break": every later slot too
              ELSE IF (~\E b \in M : lo <= b /\ b <= hi) \/ offset + Pow(level) <= start THEN {}      \* "*p == 0 || ..." continue
              ELSE IF level = 0 THEN {lo}
              ELSE LET start2 == IF start > offset THEN start - offset ELSE 0
                       count2 == IF DevIndPunchRange THEN (IF count >= offset THEN count - offset ELSE Huge)
                                 ELSE (start + count) - (offset + start2)
                   IN IndPunch(M, level - 1, lo, start2, count2, A)
         : i \in 0 .. (max - 1) }

\* the level loop of ext2fs_punch_ind(): (level, start, count, max, base of this level's slots, num slots)
RECURSIVE Levels(_, _, _, _, _, _, _)
Levels(M, level, start, count, max, base, num) ==
   IF level >= 4 THEN {} ELSE
   LET nmax  == IF level = 0 THEN A ELSE max * A          \* "if (level == 0) max = 1", then "max *= addr_per_block"
       nbase == base + (IF level = 0 THEN ND ELSE Pow(level))
   IN IF start < max THEN
         LET here == IndPunch(M, level, base, start, count, num)
             more == IF DevIndPunchRange THEN count > max ELSE start + count > max
         IN IF more THEN here \cup Levels(M, level + 1, 0, count - (max - start), nmax, nbase, 1)
            ELSE here
      ELSE Levels(M, level + 1, start - max, count, nmax, nbase, 1)

Count(s, e) == IF e = Inf THEN Huge - s ELSE e - s + 1
Punched(M, s, e) == Levels(M, 0, s, Count(s, e), ND, 0, ND) \cap M
Expected(M, s, e) == {b \in M : s <= b /\ (e = Inf \/ b <= e)}

\* ---------------------------------------------------------------- state machine for model checking
VARIABLES map, prev, freed, last, n
ivars == <<map, prev, freed, last, n>>
All == 0 .. (Total - 1)
IInit == /\ map \in {All, {b \in All : b % 2 = 0}, {b \in All : b % 3 # 1}, {b \in All : b >= ND}}
         /\ prev = map /\ freed = {} /\ last = <<Total, Total>> /\ n = 0
DoPunch(s, e) == /\ n < MaxPunches /\ n' = n + 1
                 /\ map' = map \ Punched(map, s, e) /\ freed' = Punched(map, s, e)
                 /\ prev' = map /\ last' = <<s, e>>
INext == \E s \in All : \E e \in (s .. (Total - 1)) \cup {Inf} : DoPunch(s, e)
ISpec == IInit /\ [][INext]_ivars

\* exactly the mapped blocks of s .. e leave the map; nothing else changes; what is freed is what left
MapUpdatedExactly == /\ map = prev \ Expected(prev, last[1], last[2])
                     /\ freed = prev \ map
FreesTooMuch == ~(freed \subseteq Expected(prev, last[1], last[2]))      \* for reading counterexamples of the literal code
=============================================================================
