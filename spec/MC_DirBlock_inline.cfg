SPECIFICATION Spec
CONSTANTS
  N = 5
  NLen <- cNLenInl
  G <- G1kCsum
  Inline = TRUE
  MaxBlocks = 9
INVARIANT InvChain
INVARIANT InvLive
INVARIANT InvInsertable
CHECK_DEADLOCK FALSE
