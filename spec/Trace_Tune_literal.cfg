SPECIFICATION TraceSpec
CONSTANTS
  DevRewriteSkipsOrphanFile = TRUE
  DevJournalOffKeepsOrphanFile = TRUE
  DevDirIndexOffNoFsck = TRUE
POSTCONDITION TraceAccepted
CHECK_DEADLOCK FALSE
