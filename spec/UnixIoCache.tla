---------------------------- MODULE UnixIoCache ----------------------------
(* Implementation-shaped specification of lib/ext2fs/unix_io.c (the 8-slot write-back cache of the Unix I/O
   manager), refining the property view IoChannel.  One action per manager entry point, one operator per code
   path inside it; the atomic unit is the manager call (the channel is used by one thread here; the threaded use
   is BitmapLoad.tla).

   Granule model: all offsets/sizes are multiples of a granule; a granule's content is one tag (0 = zeroes).
   A channel block of the current block size bs covers bs granules.  K = CACHE_SIZE (8), D = WRITE_DIRECT_SIZE
   = READ_DIRECT_SIZE (4); the code requires D < K.

   Deviation constants (TRUE = literal behaviour of the pinned tree, FALSE = repaired behaviour):
     DevInvalSkipsClean    flush_cached_blocks(FLUSH_INVALIDATE) leaves clean in-use entries valid
     DevZeroBypassesCache  unix_zeroout()/unix_discard() never look at the cache
     DevWriteEvictErrLost  unix_write_blk64() returns 0 when writing back the dirty victim of a slot it wants to
                           reuse fails (the error of reuse_cache() is dropped; the rest of the request is not stored)
   Precondition constant:
     TogglePre             TRUE = content-changing calls are not issued while the cache is switched off by
                           set_option("cache=off") and still holds entries (the only in-tree use of the toggle,
                           rw_bitmaps.c, brackets a read-only phase); FALSE = no such restriction.

   Device write failures: every call takes the set F of indices (1 = first device write attempt of this call)
   of the write(2)/pwrite(2) attempts that fail with EIO and no effect.                                      *)
EXTENDS Integers, Sequences, FiniteSets, TLC
CONSTANTS NG, K, D, InitBS, DevInvalSkipsClean, DevZeroBypassesCache, DevWriteEvictErrLost, TogglePre
VARIABLES dev,      \* [G -> tag]     backing file content (channel coordinates)
          slot,     \* [1..K -> [blk, use, dirty, werr, data]]   data = <<tag>> * bs while in use
          lru,      \* in-use slot indices, smallest access_time first
          bs,       \* channel block size in granules
          cfg,      \* [nocache, wt, bounce, handler, align]  IO_FLAG_NOCACHE, CHANNEL_FLAGS_WRITETHROUGH,
                    \*   IO_FLAG_FORCE_BOUNCE, a write_error handler is installed, channel->align (0/1)
          open,     \* the channel exists
          logical,  \* abstract content (IoChannel)
          res,      \* observation of the last call
          unrep     \* a device write failed and nobody was told
vars == <<dev, slot, lru, bs, cfg, open, logical, res, unrep>>

UNK == -2
G == 0..(NG - 1)
Min(a, b) == IF a < b THEN a ELSE b
Empty == [blk |-> 0, use |-> FALSE, dirty |-> FALSE, werr |-> FALSE, data |-> <<>>]
NoSlots == TLCEval([i \in 1..K |-> Empty])
Touch(l, i) == SelectSeq(l, LAMBDA x : x # i) \o <<i>>
Overlay(d, g0, data) == TLCEval([g \in G |-> IF g >= g0 /\ g < g0 + Len(data) THEN data[g - g0 + 1] ELSE d[g]])
DevData(d, g0, n) == TLCEval([j \in 1..n |-> d[g0 + j - 1]])
SlotGr(s) == (s.blk * bs)..(s.blk * bs + bs - 1)

(* ------------------------------------------------------------------------------------------------------- *)
(* The state threaded through one manager call.                                                             *)
C0 == [dev |-> dev, slot |-> slot, lru |-> lru, align |-> cfg.align,
       nw |-> 0,        \* device write attempts so far in this call
       ev |-> <<>>,     \* device events: <<1, granule offset, granules, failed>> write attempt, <<2,0,0,0>> fsync
       nfail |-> 0,     \* raw writes that failed
       fg |-> {},       \* granules of the raw writes that failed
       lost |-> {},     \* granules whose newest content was dropped (reported through the handler)
       hb |-> <<>>,     \* blocks passed to channel->write_error, in call order
       ok |-> TRUE,     \* outcome of the last raw write / reuse
       ferr |-> FALSE]  \* flush_cached_blocks: errors_found / retval2 # 0

\* one write(2)/pwrite(2) on the device
Attempt(c, g0, data, F) ==
   LET k == c.nw + 1
       fl == k \in F
   IN [c EXCEPT !.nw = k, !.ev = Append(@, <<1, g0, Len(data), IF fl THEN 1 ELSE 0>>),
                !.dev = IF fl THEN @ ELSE Overlay(@, g0, data), !.ok = ~fl]

\* raw_write_blk, bounce path (IO_FLAG_FORCE_BOUNCE): read-modify-write of whole blocks, one write(2) each
RECURSIVE BounceChunks(_, _, _, _)
BounceChunks(c, g0, data, F) ==
   IF Len(data) = 0 THEN [c EXCEPT !.ok = TRUE] ELSE
   LET a   == (g0 \div bs) * bs
       off == g0 - a
       n   == Min(Len(data), bs - off)
       img == TLCEval([j \in 1..bs |-> IF j > off /\ j <= off + n THEN data[j - off] ELSE c.dev[a + j - 1]])
       w   == Attempt(c, a, img, F)
   IN IF ~w.ok THEN w ELSE BounceChunks(w, g0 + n, SubSeq(data, n + 1, Len(data)), F)

\* raw_write_blk: pwrite, on failure lseek+write; the bounce path instead when forced.  `hdl`: the caller did not
\* pass RAW_WRITE_NO_HANDLER, so channel->write_error (if any) is called with block `blk`
RawWrite(c, g0, data, F, hdl, blk) ==
   LET w == IF cfg.bounce THEN [BounceChunks(c, g0, data, F) EXCEPT !.align = 1]
            ELSE LET a1 == Attempt(c, g0, data, F) IN IF a1.ok THEN a1 ELSE Attempt(a1, g0, data, F)
   IN IF w.ok THEN w
      ELSE [w EXCEPT !.nfail = @ + 1, !.fg = @ \cup (g0..(g0 + Len(data) - 1)),
                     !.hb = IF hdl /\ cfg.handler THEN Append(@, blk) ELSE @]

\* raw_read_blk (reads are not failed here); forcing the bounce path sets channel->align = 1
RawRead(c) == IF cfg.bounce THEN [c EXCEPT !.align = 1] ELSE c

DropSlot(c, i) == [c EXCEPT !.slot[i] = Empty, !.lru = SelectSeq(@, LAMBDA x : x # i)]

(* flush_cached_blocks(flags): first loop over the slots in index order ...                                  *)
RECURSIVE FlushFrom(_, _, _, _)
FlushFrom(c, i, inval, F) ==
   IF i > K THEN c ELSE
   LET s == c.slot[i] IN
   IF ~s.use THEN FlushFrom(c, i + 1, inval, F)
   ELSE IF ~s.dirty
        THEN IF inval /\ ~DevInvalSkipsClean
             THEN FlushFrom(DropSlot(c, i), i + 1, inval, F)             \* repaired: clean entries are invalidated too
             ELSE FlushFrom(c, i + 1, inval, F)                          \* pinned: `if (!in_use || !dirty) continue;`
        ELSE LET w == RawWrite(c, s.blk * bs, s.data, F, FALSE, s.blk) IN
             IF w.ok
             THEN FlushFrom(IF inval THEN DropSlot(w, i)
                            ELSE [w EXCEPT !.slot[i].dirty = FALSE, !.slot[i].werr = FALSE], i + 1, inval, F)
             ELSE FlushFrom([w EXCEPT !.slot[i].werr = TRUE, !.ferr = TRUE], i + 1, inval, F)
(* ... then, if anything failed, the retry loop: entries with write_err are handed to the handler and dropped,
   or (no handler) just lose the flag and stay dirty                                                         *)
RECURSIVE RetryFrom(_, _)
RetryFrom(c, i) ==
   IF i > K THEN c ELSE
   LET s == c.slot[i] IN
   IF s.use /\ s.werr
   THEN IF cfg.handler
        THEN RetryFrom([DropSlot(c, i) EXCEPT !.hb = Append(@, s.blk), !.lost = @ \cup SlotGr(s)], i + 1)
        ELSE RetryFrom([c EXCEPT !.slot[i].werr = FALSE], i + 1)
   ELSE RetryFrom(c, i + 1)
FlushAll(c, inval, F) ==
   LET m == FlushFrom([c EXCEPT !.ferr = FALSE], 1, inval, F) IN IF m.ferr THEN RetryFrom(m, 1) ELSE m

\* find_cached_block: the first in-use slot holding blk (0 = none); a hit also bumps its access_time
Find(c, blk) == LET S == {i \in 1..K : c.slot[i].use /\ c.slot[i].blk = blk} IN
                IF S = {} THEN 0 ELSE CHOOSE i \in S : \A j \in S : i <= j
Bump(c, i) == [c EXCEPT !.lru = Touch(@, i)]
\* ... and the slot it proposes for reuse: first unused slot, else smallest access_time
Victim(c) == LET U == {i \in 1..K : ~c.slot[i].use} IN
             IF U # {} THEN CHOOSE i \in U : \A j \in U : i <= j ELSE c.lru[1]

\* reuse_cache: write the victim back if dirty (failure: write_err = 1, error), then take the slot
ReuseSlot(c, v, blk, data, dirty, F) ==
   LET s == c.slot[v]
       w == IF s.use /\ s.dirty THEN RawWrite(c, s.blk * bs, s.data, F, FALSE, s.blk) ELSE [c EXCEPT !.ok = TRUE]
   IN IF ~w.ok THEN [w EXCEPT !.slot[v].werr = TRUE]
      ELSE [w EXCEPT !.slot[v] = [blk |-> blk, use |-> TRUE, dirty |-> dirty, werr |-> FALSE, data |-> data],
                     !.lru = Touch(@, v)]
\* label call_write_handler in read_blk64 / write_blk64: the victim whose write-back failed
CallWriteHandler(c, v) ==
   IF c.slot[v].werr /\ cfg.handler
   THEN LET s == c.slot[v] IN [DropSlot(c, v) EXCEPT !.hb = Append(@, s.blk), !.lost = @ \cup SlotGr(s)]
   ELSE c

(* unix_read_blk64, cached path (0 < count <= D) *)
RECURSIVE RunLen(_, _, _, _)
RunLen(c, blk, n, i) == IF i < n /\ Find(c, blk + i) = 0 THEN RunLen(c, blk, n, i + 1) ELSE i
RECURSIVE Fill(_, _, _, _, _)        \* "Save the results in the cache": rd = what the device returned for the run
Fill(c, blk, j, rd, F) ==
   IF j = 0 THEN [c EXCEPT !.ok = TRUE] ELSE
   LET v == Victim(c)
       r == ReuseSlot(c, v, blk, SubSeq(rd, 1, bs), FALSE, F)
   IN IF ~r.ok THEN CallWriteHandler(r, v)
      ELSE Fill(r, blk + 1, j - 1, SubSeq(rd, bs + 1, Len(rd)), F)
RECURSIVE ReadLoop(_, _, _, _, _)    \* returns <<c, data returned so far, success>>
ReadLoop(c, blk, n, out, F) ==
   IF n = 0 THEN <<c, out, TRUE>> ELSE
   LET i == Find(c, blk) IN
   IF i # 0 THEN ReadLoop(Bump(c, i), blk + 1, n - 1, out \o c.slot[i].data, F)          \* ReadHit
   ELSE LET run == RunLen(c, blk, n, 1)                                                    \* ReadMissFill
            stop == IF run < n THEN Find(c, blk + run) ELSE 0       \* the probe that ended the run bumped that slot
            c1 == RawRead(IF stop # 0 THEN Bump(c, stop) ELSE c)
            rd == DevData(c1.dev, blk * bs, run * bs)
            f  == Fill(c1, blk, run, rd, F)
        IN IF ~f.ok THEN <<f, out \o rd, FALSE>>
           ELSE ReadLoop(f, blk + run, n - run, out \o rd, F)

(* unix_write_blk64, cached path *)
RECURSIVE WriteLoop(_, _, _, _, _)
WriteLoop(c, blk, n, data, F) ==
   IF n = 0 THEN [c EXCEPT !.ok = TRUE] ELSE
   LET i == Find(c, blk)
       d1 == SubSeq(data, 1, bs)
       rest == SubSeq(data, bs + 1, Len(data))
   IN IF i # 0
      THEN WriteLoop([Bump(c, i) EXCEPT !.slot[i].data = d1, !.slot[i].dirty = ~cfg.wt], blk + 1, n - 1, rest, F)
      ELSE LET v == Victim(c)
               r == ReuseSlot(c, v, blk, d1, ~cfg.wt, F)
           IN IF ~r.ok THEN CallWriteHandler(r, v) ELSE WriteLoop(r, blk + 1, n - 1, rest, F)

(* ------------------------------------------------------------------------------------------------------- *)
View(d, s, nocache) ==        \* what a read through the channel would return now (the refinement mapping)
   [g \in G |-> LET S == {i \in 1..K : s[i].use /\ g \in (s[i].blk * bs)..(s[i].blk * bs + bs - 1)} IN
                IF nocache \/ S = {} THEN d[g]
                ELSE LET i == CHOOSE i \in S : \A j \in S : i <= j IN s[i].data[g - s[i].blk * bs + 1]]

\* granules a call addresses: count > 0 blocks, count < 0 granules (the code: bytes)
Span(blk, cnt) == IF cnt > 0 THEN cnt * bs ELSE -cnt
Rng(blk, cnt) == (blk * bs)..(blk * bs + Span(blk, cnt) - 1)
InRange(blk, cnt) == blk >= 0 /\ cnt # 0 /\ blk * bs + Span(blk, cnt) <= NG
StaleEntries == cfg.nocache /\ \E i \in 1..K : slot[i].use
WritePre == TogglePre => ~StaleEntries

First(rng) == CHOOSE m \in rng : \A x \in rng : m <= x
\* commit the call: c = final call state, ret = 0 / 1, data = function on rng (values read or written)
Commit(c, op, ret, rng, data, newlog, ncfg) ==      \* data: sequence of tags, one per granule of rng in order
   /\ dev' = c.dev /\ slot' = c.slot /\ lru' = c.lru
   /\ cfg' = [ncfg EXCEPT !.align = c.align]
   /\ logical' = TLCEval([g \in G |-> IF g \in c.lost THEN UNK ELSE newlog[g]])
   /\ res' = [op |-> op, ret |-> ret, rng |-> rng, data |-> data,
              rok |-> (op # "read" \/ ret # 0 \/ \A g \in rng : logical[g] = UNK \/ data[g - First(rng) + 1] = logical[g]),
              ev |-> c.ev, hb |-> c.hb, nfail |-> c.nfail, fg |-> c.fg]
   /\ unrep' = (unrep \/ (c.nfail > 0 /\ ret = 0 /\ Len(c.hb) = 0))
Written(rng, data, ret) == [g \in G |-> IF g \in rng THEN (IF ret = 0 THEN data[g - First(rng) + 1] ELSE UNK) ELSE logical[g]]
Zeros(n) == TLCEval([j \in 1..n |-> 0])

(* ------------------------------- the manager entry points ------------------------------------------------ *)
Read(blk, cnt, F) ==
   /\ open /\ InRange(blk, cnt) /\ UNCHANGED <<bs, open>>
   /\ LET rng == Rng(blk, cnt) IN
      IF cfg.nocache                                                                  \* ReadNoCache
      THEN LET c == RawRead(C0) IN
           Commit(c, "read", 0, rng, DevData(c.dev, blk * bs, Span(blk, cnt)), logical, cfg)
      ELSE IF cnt < 0 \/ cnt > D                                                      \* ReadDirect
      THEN LET f == FlushAll(C0, FALSE, F) IN
           IF f.ferr THEN Commit(f, "read", 1, rng, Zeros(Span(blk, cnt)), logical, cfg)
           ELSE LET c == RawRead(f) IN Commit(c, "read", 0, rng, DevData(c.dev, blk * bs, Span(blk, cnt)), logical, cfg)
      ELSE LET r == ReadLoop(C0, blk, cnt, <<>>, F) IN                                \* ReadCached
           IF r[3] THEN Commit(r[1], "read", 0, rng, r[2], logical, cfg)
           ELSE Commit(r[1], "read", 1, rng, Zeros(Span(blk, cnt)), logical, cfg)

\* tags: the payload, one tag per granule of Rng(blk, cnt)
Write(blk, cnt, tags, F) ==
   /\ open /\ InRange(blk, cnt) /\ WritePre /\ UNCHANGED <<bs, open>> /\ Len(tags) = Span(blk, cnt)
   /\ LET rng == Rng(blk, cnt)
          data == tags
      IN
      IF cfg.nocache                                                                  \* WriteNoCache
      THEN LET c == RawWrite(C0, blk * bs, data, F, TRUE, blk)
               ret == IF c.ok THEN 0 ELSE 1
           IN Commit(c, "write", ret, rng, tags, Written(rng, tags, ret), cfg)
      ELSE IF cnt < 0 \/ cnt > D                                                      \* WriteDirect
      THEN LET f == FlushAll(C0, TRUE, F) IN
           IF f.ferr THEN Commit(f, "write", 1, rng, tags, Written(rng, tags, 1), cfg)
           ELSE LET c == RawWrite(f, blk * bs, data, F, TRUE, blk)
                    ret == IF c.ok THEN 0 ELSE 1
                IN Commit(c, "write", ret, rng, tags, Written(rng, tags, ret), cfg)
      ELSE LET c0 == IF cfg.wt THEN RawWrite(C0, blk * bs, data, F, TRUE, blk) ELSE C0   \* WriteCached
               wtok == c0.ok
               c == WriteLoop(c0, blk, cnt, data, F)
               ret == IF (c.ok \/ DevWriteEvictErrLost) /\ wtok THEN 0 ELSE 1    \* pinned: `err` of reuse_cache is dropped
           IN Commit(c, "write", ret, rng, tags, Written(rng, tags, ret), cfg)

\* unix_write_byte(offset, size): off, n in granules
WriteByte(off, n, tags, F) ==
   /\ open /\ off >= 0 /\ n > 0 /\ off + n <= NG /\ WritePre /\ UNCHANGED <<bs, open>>
   /\ Len(tags) = n
   /\ LET rng == off..(off + n - 1)
          data == tags
      IN
      IF cfg.align # 0 THEN Commit(C0, "write", 1, rng, tags, Written(rng, tags, 1), cfg)   \* EXT2_ET_UNIMPLEMENTED
      ELSE LET f == FlushAll(C0, TRUE, F) IN
           IF f.ferr THEN Commit(f, "write", 1, rng, tags, Written(rng, tags, 1), cfg)
           ELSE LET a == Attempt(f, off, data, F)                                       \* lseek + write, one attempt
                    c == IF a.ok THEN a ELSE [a EXCEPT !.nfail = @ + 1, !.fg = @ \cup rng]
                    ret == IF a.ok THEN 0 ELSE 1
                IN Commit(c, "write", ret, rng, tags, Written(rng, tags, ret), cfg)

\* unix_zeroout / unix_discard on a regular file (fallocate ZERO_RANGE / PUNCH_HOLE): zok = the kernel did it;
\* ztag = the value that stands for zeroes (0; the model checker passes a fresh value, which is the worst case)
Zeroout(blk, n, zok, ztag, F) ==
   /\ open /\ n > 0 /\ InRange(blk, n) /\ WritePre /\ UNCHANGED <<bs, open>>
   /\ LET rng == Rng(blk, n)
          zero == TLCEval([j \in 1..Span(blk, n) |-> ztag])
          f == IF DevZeroBypassesCache THEN C0 ELSE FlushAll(C0, TRUE, F)                \* repaired: flush + invalidate first
      IN IF f.ferr THEN Commit(f, "write", 1, rng, zero, Written(rng, zero, 1), cfg)
         ELSE LET ret == IF zok THEN 0 ELSE 1
                  c == IF zok THEN [f EXCEPT !.dev = TLCEval([g \in G |-> IF g \in rng THEN ztag ELSE @[g]])] ELSE f
              IN Commit(c, "write", ret, rng, zero, Written(rng, zero, ret), cfg)

Flush(F) ==
   /\ open /\ UNCHANGED <<bs, open>>
   /\ LET f == FlushAll(C0, FALSE, F)
          c == IF f.ferr THEN f ELSE [f EXCEPT !.ev = Append(@, <<2, 0, 0, 0>>)]             \* fsync
      IN Commit(c, "flush", IF f.ferr THEN 1 ELSE 0, {}, <<>>, logical, cfg)

DirtyGr(c) == UNION {SlotGr(c.slot[i]) : i \in {j \in 1..K : c.slot[j].use /\ c.slot[j].dirty}}

\* unix_close: flush (no fsync), close, free_cache
Close(F) ==
   /\ open /\ open' = FALSE /\ UNCHANGED bs
   /\ LET f == FlushAll(C0, FALSE, F)
          c == [f EXCEPT !.lost = @ \cup DirtyGr(f), !.slot = NoSlots, !.lru = <<>>]
      IN Commit(c, "close", IF f.ferr THEN 1 ELSE 0, {}, <<>>, logical, cfg)

\* unix_set_blksize: flush; free_cache + alloc_cache
SetBlksize(nbs, F) ==
   /\ open /\ nbs > 0 /\ NG % nbs = 0 /\ UNCHANGED open
   /\ IF nbs = bs THEN bs' = bs /\ Commit(C0, "other", 0, {}, <<>>, logical, cfg)
      ELSE LET f == FlushAll(C0, FALSE, F) IN
           IF f.ferr THEN bs' = bs /\ Commit(f, "other", 1, {}, <<>>, logical, cfg)
           ELSE /\ bs' = nbs
                /\ Commit([f EXCEPT !.slot = NoSlots, !.lru = <<>>], "other", 0, {}, <<>>, logical, cfg)

\* unix_set_option("cache", "off"): flush without invalidating, then IO_FLAG_NOCACHE; entries that could not be
\* written stay dirty behind the switched-off cache: their content is no longer what the channel returns
CacheOff(F) ==
   /\ open /\ UNCHANGED <<bs, open>>
   /\ LET f == FlushAll(C0, FALSE, F)
          c == [f EXCEPT !.lost = @ \cup DirtyGr(f)]
      IN Commit(c, "other", IF f.ferr THEN 1 ELSE 0, {}, <<>>, logical, [cfg EXCEPT !.nocache = TRUE])
CacheOn ==
   /\ open /\ UNCHANGED <<bs, open>>
   /\ Commit(C0, "other", 0, {}, <<>>, logical, [cfg EXCEPT !.nocache = FALSE])

\* unix_open (+ the configuration the caller applies right after it)
Open(wt, bounce, handler, align0, nocache0) ==   \* align0: channel->align as set by IO_FLAG_DIRECT_IO (0 otherwise);
                                                  \* nocache0: set_option("cache=off") right after the open (no entries yet)
   /\ ~open /\ open' = TRUE /\ bs' = InitBS
   /\ dev' = dev /\ slot' = NoSlots /\ lru' = <<>> /\ logical' = logical /\ unrep' = unrep
   /\ cfg' = [nocache |-> nocache0, wt |-> wt, bounce |-> bounce, handler |-> handler, align |-> align0]
   /\ res' = [op |-> "open", ret |-> 0, rng |-> {}, data |-> <<>>, rok |-> TRUE, ev |-> <<>>, hb |-> <<>>,
              nfail |-> 0, fg |-> {}]

InitWith(d0) ==
   /\ dev = d0 /\ logical = d0 /\ slot = NoSlots /\ lru = <<>> /\ bs = InitBS /\ open = FALSE
   /\ cfg = [nocache |-> FALSE, wt |-> FALSE, bounce |-> FALSE, handler |-> FALSE, align |-> 0]
   /\ unrep = FALSE
   /\ res = [op |-> "init", ret |-> 0, rng |-> {}, data |-> <<>>, rok |-> TRUE, ev |-> <<>>, hb |-> <<>>,
             nfail |-> 0, fg |-> {}]

(* --------------------------------------- properties ------------------------------------------------------ *)
Agrees(want, have, S) == \A g \in S : want[g] = UNK \/ have[g] = want[g]
Coherent == res.rok                                                    \* a successful read returned logical
DurableAfterFlush == (res.op \in {"flush", "close"} /\ res.ret = 0) => Agrees(logical, dev, G)
ErrorReported == ~unrep                                                \* every failed device write was reported by the call that met it
Refines == open => Agrees(logical, View(dev, slot, cfg.nocache), G)     \* the refinement mapping is exact in every state
NoDupSlots == \A i, j \in 1..K : (i # j /\ slot[i].use /\ slot[j].use) => slot[i].blk # slot[j].blk
LruWellFormed == /\ {lru[i] : i \in 1..Len(lru)} = {i \in 1..K : slot[i].use}
                 /\ Len(lru) = Cardinality({i \in 1..K : slot[i].use})
                 /\ \A i \in 1..K : slot[i].use => Len(slot[i].data) = bs
WriteThroughClean == cfg.wt => \A i \in 1..K : ~slot[i].dirty
TypeOK == /\ D < K /\ bs > 0 /\ NG % bs = 0

\* refinement of the property view
IO == INSTANCE IoChannel WITH backing <- dev, Tags <- {},
         obs <- [op |-> IF res.op \in {"read", "write", "flush", "close"} THEN res.op ELSE "other",
                 rng |-> res.rng, ret |-> res.ret, F |-> res.fg,
                 data |-> [g \in res.rng |-> res.data[g - First(res.rng) + 1]],
                 rep |-> (res.ret # 0 \/ Len(res.hb) > 0)]
RefinesIoChannel == [][IO!NextObs]_vars
=============================================================================
