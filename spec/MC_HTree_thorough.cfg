SPECIFICATION Spec
CONSTANTS
  N = 10
  BS = 1024
  RootLim = 3
  NodeLim = 4
  MaxOps = 11
  WithRebuild = FALSE
INVARIANT InvDx
INVARIANT InvLookup
INVARIANT InvLive
INVARIANT InvChain
INVARIANT InvDisguise
INVARIANT InvRefusal
INVARIANT InvRebuiltForm
CHECK_DEADLOCK FALSE
