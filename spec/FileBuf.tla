------------------------------ MODULE FileBuf ------------------------------
(* Property C09, implementation-shaped: lib/ext2fs/fileio.c -- the one-block buffer of an open file (flags
   BUF_VALID / BUF_DIRTY, blockno, physblock), sync_buffer_position(), load_buffer(), ext2fs_file_flush(),
   ext2fs_file_read/write(), ext2fs_file_set_size2() + ext2fs_file_zero_past_offset(), and the block-level effect of
   ext2fs_punch / ext2fs_fallocate (issued while the handle is closed) -- on top of the cell abstraction of FileData.
   The abstract file of FileData (variables size, cell) is driven in lock step; `Refines` says that what a reader of the
   implementation state sees IS the abstract file.

   Blocks: every CPB-th cut point is a block boundary (BlockCuts = <<0, CPB, 2 CPB, ...>>); block k consists of the
   cells k CPB .. (k+1) CPB - 1, so writes can cover blocks partially.
   Device content of a cell:  Hole (block not mapped), Uninit (mapped, uninitialized extent), Zero, a tag, or Garb
   (mapped, never written: whatever the block held before).

   DevSetSizeStaleBuffer = TRUE is the literal behaviour of the pinned tree (genuine defect, DESIGN 7 row 9):
   ext2fs_file_set_size2() zeroes the tail of the last block ON THE DEVICE and punches blocks while the handle's buffer
   keeps (valid, dirty, physblock) of a block that was cut: stale data is resurrected, and a later flush goes to the
   physical block that was freed.  FALSE is the repaired code (fixes/C09_setsize_stale_buffer.patch): flush and
   invalidate the buffer before shrinking.                                                                          *)
EXTENDS FileData

CONSTANTS CPB,                      \* cells per block: block boundaries are the cut points 0, CPB, 2 CPB, ...
          DevSetSizeStaleBuffer
ASSUME NFiles = 1 /\ (NCuts - 1) % CPB = 0
BlockCuts == [k \in 1 .. ((NCuts - 1) \div CPB + 1) |-> (k - 1) * CPB]
F0 == 0
Uninit == -4
Garb == -5
NB == Len(BlockCuts) - 1                                   \* number of blocks; block k = 0 .. NB-1
BlockOf(i) == CHOOSE k \in 0 .. (NB - 1) : BlockCuts[k + 1] <= i /\ i < BlockCuts[k + 2]      \* block of cell i
PosBlock(p) == IF p >= BlockCuts[NB + 1] THEN NB ELSE BlockOf(p)      \* block holding byte offset "cut p"
CellsOf(k) == {i \in Cells : BlockOf(i) = k}
Aligned(c) == \E k \in 1 .. (NB + 1) : BlockCuts[k] = c
BlocksFor(c) == Cardinality({k \in 0 .. (NB - 1) : BlockCuts[k + 1] < c})      \* (c + blocksize - 1) / blocksize
Seen(v) == IF v \in {Hole, Uninit} THEN Zero ELSE v            \* what load_buffer puts into the buffer

VARIABLES isize, pos, disk, buf, scribbled
ivars == <<isize, pos, disk, buf, scribbled>>
vars == <<avars, ivars>>
NoBuf == [valid |-> FALSE, dirty |-> FALSE, blk |-> -1, mapped |-> FALSE, data |-> [i \in Cells |-> Zero]]
Mapped(d, k) == \E i \in CellsOf(k) : d[i] # Hole

\* ---- the implementation, as functions of an implementation state s = [isize, pos, disk, buf, scr] ----
\* ext2fs_file_flush
FlushS(s) ==
   IF ~(s.buf.valid /\ s.buf.dirty) THEN s
   ELSE IF s.buf.mapped /\ ~Mapped(s.disk, s.buf.blk)
        THEN [s EXCEPT !.buf.dirty = FALSE, !.scr = TRUE]           \* physblock was freed behind the buffer: the write lands in free space
   ELSE [s EXCEPT !.disk = [i \in Cells |-> IF BlockOf(i) = s.buf.blk THEN s.buf.data[i] ELSE s.disk[i]],
                  !.buf.dirty = FALSE, !.buf.mapped = TRUE]
\* sync_buffer_position with file->pos in block k
SyncS(s, k) == IF s.buf.blk # k THEN [FlushS(s) EXCEPT !.buf.valid = FALSE, !.buf.blk = k] ELSE s
\* load_buffer
LoadS(s, dontfill) ==
   IF s.buf.valid THEN s
   ELSE [s EXCEPT !.buf.valid = TRUE, !.buf.mapped = Mapped(s.disk, s.buf.blk),
                  !.buf.data = [i \in Cells |-> IF BlockOf(i) # s.buf.blk THEN Zero
                                                ELSE IF dontfill THEN Garb ELSE Seen(s.disk[i])]]
\* one iteration of the loop of ext2fs_file_write: the part [a, b) of the write that lies in block k
WriteBlockS(s, k, a, b, t) ==
   LET whole == \A i \in CellsOf(k) : a <= i /\ i < b
       s1 == LoadS(SyncS(s, k), whole)
       s2 == [s1 EXCEPT !.buf.dirty = TRUE,
                        !.buf.data = [i \in Cells |-> IF BlockOf(i) = k /\ a <= i /\ i < b THEN t ELSE s1.buf.data[i]]]
   IN IF s2.buf.mapped THEN s2                                       \* "if (!file->physblock)" allocate now
      ELSE [s2 EXCEPT !.buf.mapped = TRUE,
                      !.disk = [i \in Cells |-> IF BlockOf(i) = k THEN Garb ELSE s2.disk[i]]]
\* ext2fs_file_zero_past_offset(c) + the rest of ext2fs_file_set_size2
SetSizeS(s0, c) ==
   LET shrink == c < s0.isize
       s == IF shrink /\ ~DevSetSizeStaleBuffer THEN [FlushS(s0) EXCEPT !.buf.valid = FALSE] ELSE s0      \* the repair
       old_trunc == BlocksFor(s.isize)
       new_trunc == BlocksFor(c)
       s1 == [s EXCEPT !.isize = c]
       \* zero_past_offset: nothing if c is block aligned; else sync_buffer_position(pos), then zero the tail on the DEVICE
       s2 == IF Aligned(c) THEN s1
             ELSE LET sy == SyncS(s1, PosBlock(s1.pos))
                      kb == BlockOf(c)                                 \* c is strictly inside block kb
                  IN IF ~Mapped(sy.disk, kb) \/ (\A i \in CellsOf(kb) : sy.disk[i] = Uninit) THEN sy
                     ELSE [sy EXCEPT !.disk = [i \in Cells |-> IF BlockOf(i) = kb /\ i >= c THEN Zero ELSE sy.disk[i]]]
   IN IF new_trunc >= old_trunc THEN s2
      ELSE [s2 EXCEPT !.disk = [i \in Cells |-> IF BlockOf(i) >= new_trunc THEN Hole ELSE s2.disk[i]]]     \* ext2fs_punch(truncate_block, ~0)
RECURSIVE WriteLoopS(_, _, _, _, _)
WriteLoopS(s, k, a, b, t) ==
   IF k >= NB \/ BlockCuts[k + 1] >= b THEN s
   ELSE WriteLoopS(WriteBlockS(s, k, a, b, t), k + 1, a, b, t)
\* ext2fs_file_llseek(a) + ext2fs_file_write(b - a bytes)
WriteS(s, a, b, t) ==
   LET s1 == [WriteLoopS(s, BlockOf(a), a, b, t) EXCEPT !.pos = b]
   IN IF s1.isize < b THEN SetSizeS(s1, b) ELSE s1
\* ext2fs_file_llseek(0) + ext2fs_file_read until EOF: the sequence of cell values returned
RECURSIVE ReadLoopS(_, _, _)
ReadLoopS(s, k, acc) ==
   IF k >= NB \/ BlockCuts[k + 1] >= s.isize THEN [s |-> [s EXCEPT !.pos = s.isize], c |-> acc]
   ELSE LET s1 == LoadS(SyncS(s, k), FALSE)
        IN ReadLoopS(s1, k + 1, [i \in Cells |-> IF BlockOf(i) = k /\ i < s.isize THEN s1.buf.data[i] ELSE acc[i]])
ReadS(s) == ReadLoopS(s, 0, [i \in Cells |-> Absent])
\* close + open of the handle (also what the driver does around ext2fs_punch / ext2fs_fallocate)
ReopenS(s) == [FlushS(s) EXCEPT !.buf = NoBuf, !.pos = 0]
PunchS(s, a, b) == LET r == ReopenS(s) IN [r EXCEPT !.disk = [i \in Cells |-> IF a <= i /\ i < b THEN Hole ELSE r.disk[i]]]
FallocS(s, a, b, m) ==
   LET r == ReopenS(s)
       r1 == [r EXCEPT !.disk = [i \in Cells |-> IF a <= i /\ i < b /\ ~Mapped(r.disk, BlockOf(i))
                                                 THEN (IF m = 0 THEN Zero ELSE Uninit) ELSE r.disk[i]]]
   IN IF Grows(m) /\ r1.isize < b THEN SetSizeS(r1, b) ELSE r1

\* ---- state machine: implementation and abstract file in lock step ----
S == [isize |-> isize[F0], pos |-> pos[F0], disk |-> disk[F0], buf |-> buf[F0], scr |-> scribbled]
Put(s) == /\ isize' = [f \in Files |-> s.isize] /\ pos' = [f \in Files |-> s.pos] /\ disk' = [f \in Files |-> s.disk]
          /\ buf' = [f \in Files |-> s.buf] /\ scribbled' = s.scr
Init == /\ AInit
        /\ isize = [f \in Files |-> 0] /\ pos = [f \in Files |-> 0] /\ disk = [f \in Files |-> [i \in Cells |-> Hole]]
        /\ buf = [f \in Files |-> NoBuf] /\ scribbled = FALSE
IWrite(a, b) == Write(F0, a, b) /\ Put(WriteS(S, a, b, nops + 1))
ISetSize(a) == SetSize(F0, a) /\ Put(SetSizeS(S, a))
IPunch(a, b) == Aligned(a) /\ Aligned(b) /\ Punch(F0, a, b) /\ Put(PunchS(S, a, b))
IFalloc(a, b, m) == Aligned(a) /\ Aligned(b) /\ Fallocate(F0, a, b, m, b) /\ Put(FallocS(S, a, b, m))
IRead == /\ Step("read", F0, 0, 0) /\ UNCHANGED <<size, cell>>
         /\ LET r == ReadS(S) IN Put(r.s) /\ res' = [len |-> r.s.isize, c |-> r.c]
IFlush == Sync(F0) /\ Put(FlushS(S))
IReopen == Sync(F0) /\ Put(ReopenS(S))
Next == \/ \E a \in Cuts, b \in Cuts : IWrite(a, b) \/ IPunch(a, b) \/ (\E m \in Modes : IFalloc(a, b, m))
        \/ \E a \in Cuts : ISetSize(a)
        \/ IRead \/ IFlush \/ IReopen
Spec == Init /\ [][Next]_vars

\* ---- refinement ----
\* the file as a reader of the implementation state sees it: through the buffer where it is valid, else the device
View(i) == IF buf[F0].valid /\ buf[F0].blk = BlockOf(i) THEN buf[F0].data[i] ELSE Seen(disk[F0][i])
Refines == /\ isize[F0] = size[F0]
           /\ \A i \in Cells : i < size[F0] => View(i) = Shown(cell[F0][i])
\* what actually comes back from a read is what the abstract file says (ReadExact of FileData, evaluated on the
\* implementation's result)
ReadRefines == op.e = "read" => res = ReadOf(size[F0], cell[F0])
\* no flush ever goes to a block the file no longer owns
NoScribble == ~scribbled
\* bytes past EOF inside the last block are zero on the device (what makes growing a file safe)
TailZero == \A i \in Cells : (i >= isize[F0] /\ ~(buf[F0].valid /\ buf[F0].blk = BlockOf(i))) => disk[F0][i] \in {Hole, Uninit, Zero, Garb}
BlockMapping == \A k \in 0 .. (NB - 1) : (\E i \in CellsOf(k) : disk[F0][i] = Hole) => (\A i \in CellsOf(k) : disk[F0][i] = Hole)
=============================================================================
