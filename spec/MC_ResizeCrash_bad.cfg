SPECIFICATION BadSpec
INVARIANT CrashInvariant
CHECK_DEADLOCK FALSE
