---------------------------- MODULE MC_Geometry ----------------------------
(* Evaluates Geometry!Compute over a lattice of configurations (one TLC state per configuration) and checks the
   arithmetic invariants, plus the closed form of the backup-group set for all group counts up to 400.            *)
EXTENDS Geometry
CONSTANTS Sizes
VARIABLE c
BS == {1024, 2048, 4096}
CfgSpace == [bs : BS, blocks : Sizes, iratio : {4096, 16384, 65536}, isz : {128, 256}, bpg : {0, 256, 1024},
             resize : BOOLEAN, sparse : BOOLEAN, ss2 : BOOLEAN, metabg : BOOLEAN, is64 : BOOLEAN, ninodes : {0}]
Valid(x) == /\ (x.bpg = 0 \/ x.bpg <= x.bs * 8)
            /\ ~(x.metabg /\ x.resize)
            /\ (x.ss2 => x.sparse)
            /\ x.blocks * (x.bs \div 1024) <= 65536                          \* images <= 64 MiB
Init == c \in {x \in CfgSpace : Valid(x)}
Next == UNCHANGED c
Spec == Init /\ [][Next]_c
Inv == GeometryOK(c, Compute(c))
NoLoop == Compute(c).err # "loop"
ASSUME BackupsClosedForm
=============================================================================
