---------------------------- MODULE MC_Geometry ----------------------------
(* Evaluates Geometry!Compute over a lattice of configurations (one TLC state per configuration) and checks the
   arithmetic invariants, plus the closed form of the backup-group set for all group counts up to 400.  The lattice
   includes sparse_super2 with and without resize_inode for every num_backup_sb, and -E resize= targets.  It also
   writes the boundary catalogue (Ss2Cells, OptionCells) the conformance universe of checks/c07.py is enumerated from. *)
EXTENDS Geometry, Json, IOUtils
CONSTANTS Sizes
VARIABLE c
BS == {1024, 2048, 4096}
CfgSpace == [bs : BS, blocks : Sizes, iratio : {4096, 16384, 65536, 4194304}, isz : {128, 256}, bpg : {0, 256, 1024},
             resize : BOOLEAN, sparse : BOOLEAN, ss2 : BOOLEAN, metabg : BOOLEAN, is64 : BOOLEAN, ninodes : {0},
             nbsb : NumBackupSb, rszfac : {0, 3, 40}]
Valid(x) == /\ (x.bpg = 0 \/ x.bpg <= x.bs * 8)
            /\ ~(x.metabg /\ x.resize)
            /\ (x.ss2 => x.sparse)
            /\ (~x.ss2 => x.nbsb = 2)                                         \* num_backup_sb only matters with sparse_super2
            /\ (x.rszfac # 0 => ~x.metabg /\ ~x.ss2 /\ x.iratio = 16384)      \* -E resize= switches resize_inode on: not with meta_bg
            /\ x.blocks * (x.bs \div 1024) <= 65536                          \* images <= 64 MiB
CfgAt(x) == [bs |-> x.bs, blocks |-> x.blocks, iratio |-> x.iratio, isz |-> x.isz, bpg |-> x.bpg, resize |-> x.resize,
             sparse |-> x.sparse, ss2 |-> x.ss2, metabg |-> x.metabg, is64 |-> x.is64, ninodes |-> x.ninodes,
             nbsb |-> x.nbsb, rszto |-> x.rszfac * x.blocks, dev |-> FALSE]
Init == c \in {CfgAt(x) : x \in {y \in CfgSpace : Valid(y)}}
Next == UNCHANGED c
Spec == Init /\ [][Next]_c
Inv == GeometryOK(c, Compute(c))
NoLoop == Compute(c).err # "loop"
\* the resize inode of every geometry is well formed: distinct slots, blocks inside group 0 behind the descriptors, list positions 1..n
ResizeInodeOK ==
   LET g == Compute(c) IN
   g.err = "" /\ g.rsv > 0 =>
      /\ Cardinality(ResizeDindMap(c.bs, g)) = g.rsv
      /\ Cardinality({m[1] : m \in ResizeDindMap(c.bs, g)}) = g.rsv
      /\ \A m \in ResizeDindMap(c.bs, g) : m[2] > g.first + g.descb /\ m[2] < g.first + g.bpg
      /\ {e[1] : e \in ResizeBackupList(g)} = 1..(Cardinality(g.backups) - 1)
      /\ \A e \in ResizeBackupList(g) : e[2] \div g.bpg \in g.backups \ {0}
ASSUME BackupsClosedForm
ASSUME \A nb \in NumBackupSb, n \in 1..40 : LET s == Ss2Slots(nb, n) IN s[1] <= s[2] /\ s[2] < n /\ Cardinality(Ss2Backups(s)) = 1 + Min(nb, n - 1)
SetToSeqOf(S) == LET RECURSIVE F(_) F(T) == IF T = {} THEN <<>> ELSE LET x == CHOOSE y \in T : TRUE IN <<x>> \o F(T \ {x}) IN F(S)
ASSUME "C07_CATALOGUE" \notin DOMAIN IOEnv \/ IOEnv.C07_CATALOGUE = "" \/
       JsonSerialize(IOEnv.C07_CATALOGUE, [ss2 |-> SetToSeqOf(Ss2Cells), options |-> SetToSeqOf(OptionCells), raid |-> SetToSeqOf(RaidCells),
                                           quota |-> SetToSeqOf({SetToSeqOf(q) : q \in QuotaCells}), usage |-> SetToSeqOf(UsageCells)])
=============================================================================
