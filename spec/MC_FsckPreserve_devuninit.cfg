SPECIFICATION Spec
CONSTANTS
  Hashes = {0}
  Ids = {1}
  Cap = 2
  LBlks = {0, 1, 2, 3}
  DataBlks = {1, 2, 3}
  MetaBlks = {8, 9}
  InoExt = 2
  NDirect = 2
  MaxDamage = 1
  MaxRuns = 2
  DevRehashDropsCollision = FALSE
  DevRehashDropsBoundary = FALSE
  DevRebuildDropsLast = FALSE
  DevCsumClearsLeaf = FALSE
  DevSbCsumRefuses = FALSE
  InitExtStates = {"w"}
  InvalidIds = {}
  CfModes = {"plain"}
  DevRebuildMergesAcrossState = FALSE
  DevEncCheckIgnoresStrict = FALSE
  DevCasefoldOpaqueHashFails = FALSE
  DevDupFoldsPlainDir = FALSE
  BSz = 2
  SizeClasses = {"end"}
  DevSizeLimitInclusive = FALSE
  DevInodeUninitWipes = TRUE
INVARIANT TypeOK
INVARIANT TreeUnchanged
CHECK_DEADLOCK FALSE
