SPECIFICATION TraceSpec
CONSTANTS
  MaxG = 128
  DevTuneMasterOnly = FALSE
  DevFsckIgnoresFeatDiff = FALSE
  DevFlushSkipsLast = FALSE
  DevResizeKeepsOldGdt = FALSE
  DevResizeMovesSoleBackup = FALSE
  DevSearchGuesses8xBs = TRUE
  DevBackupSearchIgnoresSs2 = FALSE
INVARIANT TypeOK
INVARIANT InvCurrent
INVARIANT InvBackupSet
INVARIANT Ss2Shape
POSTCONDITION TraceAccepted
CHECK_DEADLOCK FALSE
