SPECIFICATION CSpec
CONSTANTS
  CWhich = {"rc", "ic", "db", "bb", "rg"}
  RcInitSize = 2
  RcGrow = 1
  RcMaxKey = 4
  RcMaxVal = 2
  DevRcNoRetry = FALSE
  IcGrow = 1
  IcCap = 2
  IcU16 = 3
  IcMaxCount = 3
  IcSlackMax = 0
  IcModes = {0, 1, 2}
  IcMaxN = 2
  IcInitSizes = {1}
  DbGrow = 1
  DbGrowThresh = 2
  DbInos = {1, 2}
  DbBlks = {0, 8}
  DbCnts = {0, 1}
  DbInitSizes = {1}
  DbMaxLen = 3
  BbGrow = 2
  BbVals = {0, 1, 2, 3, 4, 5}
  BbInitSizes = {1, 3}
  RgMaxAddr = 6
INVARIANT CStructural
INVARIANT CRefines
INVARIANT CRefinesSlow
INVARIANT CResultsAgree
CHECK_DEADLOCK FALSE
