SPECIFICATION ISpec
CONSTANTS
  ND = 2
  A = 2
  Inf = 9999
  DevIndPunchRange = TRUE
  MaxPunches = 2
INVARIANT MapUpdatedExactly
CHECK_DEADLOCK FALSE
