------------------------------ MODULE ContAbs ------------------------------
(* The abstract objects behind the in-memory containers of e2fsck / libext2fs
   (property C01 and its neighbours take them for granted):

     counter map   key -> natural number, 0 = absent      (ea_refcount.c, icount.c)
     set           of 32-bit numbers                       (badblocks.c, region.c as a set of addresses)
     bag           of triples                              (dblist.c)

   Every implementation-shaped module (ContRefcount, ContIcount, ContDblist,
   ContBadblocks, ContRegion) carries one of these objects next to its
   transcription of the C arrays; its Refines invariant says that the array is a
   representation of the object and its ResultsAgree invariant says that every
   API result is the one the object gives.

   Results are integers or sequences of integers throughout (TLC refuses to
   compare values of different types).                                       *)
EXTENDS Integers, Sequences, FiniteSets, TLC

\* error classes shared by the modules and by harness/contdrv.c
OK     == 0
EINVAL == 1        \* EXT2_ET_INVALID_ARGUMENT
ENOMEM == 2        \* EXT2_ET_NO_MEMORY (also: "could not get an element")
ENOTFOUND == 3     \* EXT2_ET_DB_NOT_FOUND
EEMPTY == 4        \* EXT2_ET_DBLIST_EMPTY

SeqRange(q) == {q[i] : i \in 1..Len(q)}
MinOf(T) == CHOOSE m \in T : \A y \in T : m <= y
MaxOf(T) == CHOOSE m \in T : \A y \in T : m >= y
Lesser(a, b) == IF a < b THEN a ELSE b
Greater(a, b) == IF a > b THEN a ELSE b
InsertAt0(x, pos, e) == SubSeq(x, 1, pos) \o <<e>> \o SubSeq(x, pos + 1, Len(x))      \* pos is a 0-based C index
RemoveAt0(x, pos) == SubSeq(x, 1, pos) \o SubSeq(x, pos + 2, Len(x))

\* ------------------------------------------------------------ counter map  f : Keys -> Nat
CmFetch(f, k) == f[k]
CmStore(f, k, v) == [f EXCEPT ![k] = v]
CmInc(f, k) == [f EXCEPT ![k] = @ + 1]
CmDecOk(f, k) == f[k] > 0
CmDec(f, k) == [f EXCEPT ![k] = @ - 1]
CmSupport(f) == {k \in DOMAIN f : f[k] # 0}
CmPairs(f) == {<<k, f[k]>> : k \in CmSupport(f)}                \* what an enumeration must deliver, as a set
\* an enumeration result (sequence of <<key, value>>) is the ascending enumeration of the set P
AscendingEnumOf(q, P) == /\ \A i \in 1..(Len(q) - 1) : q[i][1] < q[i + 1][1]
                         /\ SeqRange(q) = P
\* the pairs an array of <<key, value>> represents (value 0 = garbage waiting for compaction)
PairsOf(x) == {e \in SeqRange(x) : e[2] # 0}
KeysStrictlyAscending(x) == \A i \in 1..(Len(x) - 1) : x[i][1] < x[i + 1][1]

\* ------------------------------------------------------------ set of numbers
StrictlyAscending(x) == \A i \in 1..(Len(x) - 1) : x[i] < x[i + 1]

\* ------------------------------------------------------------ bag, as a function element -> multiplicity >= 1
EmptyBag == [u \in {} |-> 0]                            \* the function with empty domain
BagCount(B, t) == IF t \in DOMAIN B THEN B[t] ELSE 0
BagAdd(B, t) == [u \in DOMAIN B \cup {t} |-> BagCount(B, u) + (IF u = t THEN 1 ELSE 0)]
BagDel(B, t) == IF BagCount(B, t) <= 1 THEN [u \in DOMAIN B \ {t} |-> B[u]] ELSE [B EXCEPT ![t] = @ - 1]
CountIn(x, t) == Cardinality({i \in 1..Len(x) : x[i] = t})
\* sequence x is an arrangement of bag B whose total multiplicity is n (n kept by the caller so that the check stays
\* O(n log n): set equality + length + an explicit count for the few elements that occur more than once)
ArrangementOf(x, B, n) == /\ Len(x) = n
                          /\ SeqRange(x) = DOMAIN B
                          /\ \A t \in {u \in DOMAIN B : B[u] > 1} : CountIn(x, t) = B[t]
=============================================================================
