---------------------------- MODULE Trace_Tools ----------------------------
(***************************************************************************)
(* Trace validation of whole-tool runs of e2fsck (C01, C02).  One ndjson   *)
(* line per universe element (base image + corruption recipe):             *)
(*                                                                         *)
(*  {"e":"FsckN","id":k,"exit":x,"p0":[codes],"has_st":0|1,"st":{state}}   *)
(*        e2fsck -fn on the corrupted image; st = projection of that image *)
(*        by the independent reader (always present when exit = 0);        *)
(*        p0 = superblock-stage problem codes of the run's problem log     *)
(*  {"e":"FsckYN","id":k,"exit1":x,"nfixed":n,"exit2":y,"problems2":[..]}  *)
(*        e2fsck -fy on the corrupted image, then e2fsck -fn on the result *)
(*                                                                         *)
(* Lines are independent: a line on which the property fails is reported   *)
(* with BADLINE and the scan goes on; TraceAccepted demands that every     *)
(* line was matched by an action.  For every FsckN line that carries a     *)
(* state the failed conjuncts of Consistent are printed (EVAL) -- that is  *)
(* the only place where consistency is decided.                            *)
(***************************************************************************)
EXTENDS Ext4Abs, Tools, Json, IOUtils, SequencesExt
CONSTANT DevPass0VerdictForgotten      \* TRUE while the deviation of Tools.tla is present in the tree under test
VARIABLE l
Tr == ndJsonDeserialize(IOEnv.TRACE)

\* the reader could not produce a state this module can judge: not a verdict about the filesystem
Unknown(st) == \/ "reader_err" \in DOMAIN st
               \/ (Usable(st) /\ ~CertOK(st))

(***************************************************************************)
(* The oracle of C02 is the property text, nothing more (DESIGN.md 8.1).   *)
(* Ext4Abs!Shapes collects every byte-level rule the reader knows; the     *)
(* property lists "extent trees, directory blocks and htree indexes are    *)
(* well-formed" (block maps, directory blocks, htree) next to ranges,      *)
(* ownership, bitmaps, per-group counts, links/reachability and checksums. *)
(* ShapesListed keeps exactly those rule classes (the harness logs the     *)
(* class = the text before the first ':' of each reader rule name in       *)
(* `shape_cls`); rules about i_size / i_blocks, symlinks, xattr entries,   *)
(* inline data, i_extra_isize, flags, the journal superblock, the orphan   *)
(* list, quota files and MMP geometry are outside the list: a clean        *)
(* e2fsck verdict on an image that breaks only those is reported as        *)
(* OUTSIDE (evidence), not as a violation of C02.                          *)
(***************************************************************************)
ListedShapeClasses == {"extent", "map", "ind", "dir", "htree"}

ShapesListed(st) ==
    /\ st.gd_err = <<>>
    /\ \A k \in UsedIx(st) : \A c \in Rng(st.inodes[k].shape_cls) : c \notin ListedShapeClasses
    /\ \A d \in DOMAIN st.dirs : st.dirs[d].err = <<>>
    /\ \A k \in DOMAIN st.gd : st.gd[k].bb_pad_ok

\* EXT4_EA_INODE_FL set on an inode that no extended attribute references and that directories name like any other
\* file: Ext4Abs!Links refuses the directory entry (flag-bit rule); the property's list (link counts = references,
\* reachability) does not mention the flag.  Links is re-evaluated with such stray flags dropped.
DropStrayEaFlag(st) ==
    [st EXCEPT !.inodes = [k \in DOMAIN st.inodes |->
        IF st.inodes[k].ea_inode /\ st.inodes[k].ea_refs = 0 THEN [st.inodes[k] EXCEPT !.ea_inode = FALSE] ELSE st.inodes[k]]]

\* conjuncts of Consistent that fail, restricted to what the property lists
FailedListed(st) ==
    LET f  == FailedConjuncts(st)
        f1 == IF "Shapes" \in f /\ ShapesListed(st) THEN f \ {"Shapes"} ELSE f
    IN  IF "Links" \in f1 /\ Links(DropStrayEaFlag(st)) THEN f1 \ {"Links"} ELSE f1

TFsckN ==
    /\ l <= Len(Tr) /\ Tr[l].e = "FsckN"
    /\ LET r == Tr[l] IN
       IF r.has_st = 1
       THEN LET failed == FailedConjuncts(r.st)
                unknown == Unknown(r.st)
                listed == IF unknown \/ ~Usable(r.st) THEN failed ELSE FailedListed(r.st)
                dev0 == DevPass0VerdictForgotten /\ Pass0VerdictForgotten(r.exit, r.p0)
            IN  /\ PrintT(<<"EVAL", l, r.id, r.exit, IF unknown THEN 1 ELSE 0, SetToSeq(failed)>>)
                /\ (IF ~unknown /\ ~C02_Holds(r.exit, listed = {})
                    THEN (IF dev0 THEN PrintT(<<"KNOWNDEV", l, "DevPass0VerdictForgotten">>) ELSE PrintT(<<"BADLINE", l>>))
                    ELSE TRUE)
                /\ (IF ~unknown /\ r.exit = 0 /\ listed = {} /\ failed # {} THEN PrintT(<<"OUTSIDE", l>>) ELSE TRUE)
       ELSE \* no state was projected: only legal when the implication holds trivially
            IF r.exit = 0 THEN PrintT(<<"UNDECIDED", l>>) ELSE TRUE
    /\ l' = l + 1

TFsckYN ==
    /\ l <= Len(Tr) /\ Tr[l].e = "FsckYN"
    /\ LET r == Tr[l] IN
       /\ (IF Success(r.exit1) THEN PrintT(<<"CLAIM", l, r.id, r.nfixed>>) ELSE TRUE)
       /\ (IF ~C01_Holds(r.exit1, r.exit2, r.problems2) THEN PrintT(<<"BADLINE", l>>) ELSE TRUE)
    /\ l' = l + 1

TraceInit == l = 1
TraceNext == TFsckN \/ TFsckYN
TraceSpec == TraceInit /\ [][TraceNext]_l
TraceAccepted == TLCGet("stats").diameter - 1 = Len(Tr)
=============================================================================
