SPECIFICATION TraceSpec
INVARIANT CrashInvariant
POSTCONDITION TraceAccepted
CHECK_DEADLOCK FALSE
