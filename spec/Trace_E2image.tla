---------------------------- MODULE Trace_E2image ----------------------------
(* C19 conformance.  One line per run of the real e2image (checks/c19.py):
     mode    "raw" (-r) | "qcow" (-Q) | "q2r" (-r on the -Q file) | "all" (-ra) | "qall" (-Qa) | "qall2r" (-r on the -Qa file)
     cls     per block class of the SOURCE (classified with the independent reader): n, srcnz, diff, imgnz  -- the image is
             read directly (raw modes) or through the harness's own qcow2 parser (qcow modes)
     io      system-call record of the source during the run + digest of the source before/after
     tools   e2fsck -fn / dumpe2fs on source and image (raw-format images only)
     q       the harness's parse of the qcow2 file: header fields, table counts, cluster accounting
     conv    comparison of the converted image with the directly produced raw image
   Every line is judged by the contract operators of E2image.tla (the ones TLC checks the model against).  Lines are
   independent: a failing line is printed as BADLINE with the names of the failed clauses and the scan continues.       *)
EXTENDS E2image, Json, IOUtils
VARIABLE l
Tr == ndJsonDeserialize(IOEnv.TRACE)

IsAll(o) == o.mode \in {"all", "qall"}

\* the source is never modified: opened read-only, no write-class system call, digest unchanged
SourceUntouched(o) == o.io.rw_opens = 0 /\ o.io.writes = 0 /\ o.io.sha_eq = 1 /\ o.io.opens >= 1
\* e2fsck and dumpe2fs give the same results on the image as on the original
ToolsAgree(o) == o.tools.have = 1 => /\ o.tools.fsck_src = o.tools.fsck_img /\ o.tools.fsck_eq = 1
                                     /\ o.tools.dump_rc_src = o.tools.dump_rc_img /\ o.tools.dump_eq = 1

\* the named deviation of the discovery rule shows as exactly this: the EA-inode classes are absent from a metadata image
MetaPreservedOrDev(o) == \A c \in MetaLive : Cnt(o, c).diff = 0 \/ (DevEaInodeDataSkipped /\ Owner[c].kind = "ea" /\ ~Owner[c].neg /\ Cnt(o, c).imgnz = 0)

Pow2(k) == IF k = 9 THEN 512 ELSE IF k = 10 THEN 1024 ELSE IF k = 11 THEN 2048 ELSE IF k = 12 THEN 4096
           ELSE IF k = 13 THEN 8192 ELSE IF k = 14 THEN 16384 ELSE IF k = 15 THEN 32768 ELSE IF k = 16 THEN 65536 ELSE -1
SumNz(o, S) == LET RECURSIVE F(_)
                   F(T) == IF T = {} THEN 0 ELSE LET c == CHOOSE x \in T : TRUE IN Cnt(o, c).srcnz + F(T \ {c})
               IN F(S)
\* validity of the qcow2 file as a container of exactly the marked non-zero blocks: header describes the filesystem, table
\* geometry as the format defines it, no cluster used twice / no pointer outside the file, every used cluster refcounted once,
\* one L2 table per used L1 slot, exactly the marked non-zero blocks mapped
QcowStructure(o) ==
    LET qq == o.q
        bs == o.geo.bs
        l2n == bs \div 8
        rpb == bs \div 2
        need == SumNz(o, MarkedClasses(IsAll(o)))
    IN /\ qq.magic_ok = 1 /\ qq.version = 2 /\ qq.crypt = 0 /\ qq.backing = 0 /\ qq.nsnap = 0
       /\ Pow2(qq.cbits) = bs /\ qq.size_blocks = o.geo.blocks /\ qq.size_rem = 0
       /\ qq.l2n = l2n /\ qq.rpb = rpb
       /\ qq.l1n >= (o.geo.blocks + l2n - 1) \div l2n
       /\ qq.overlap = 0 /\ qq.ref_missing = 0
       /\ qq.l2_tables >= qq.l1_used
       /\ need <= qq.mapped /\ qq.mapped <= need + Cnt(o, "mate").srcnz
\* the layout arithmetic of initialize_qcow2_image() and of the refcount prologue (implementation-shaped: header | L1 |
\* refcount table | one skipped cluster | first L2 table | first refcount block | first data cluster)
QcowLayout(o) ==
    LET qq == o.q
        bs == o.geo.bs
        rpb == bs \div 2
    IN /\ qq.l1n = (o.geo.blocks + qq.l2n - 1) \div qq.l2n /\ qq.l2_tables = qq.l1_used
       /\ qq.l1c = (qq.l1n * 8 + bs - 1) \div bs
       /\ qq.l1_off = 1 /\ qq.rt_off = 1 + qq.l1c
       /\ qq.l2_first = qq.rt_off + qq.rtc + 1                      \* the cluster after the refcount table is skipped
       /\ qq.rb_first = qq.l2_first + 1
       /\ (qq.rb_first < rpb - 1 => qq.data_first = qq.rb_first + 1)   \* prologue inside the first refcount block
       /\ (qq.file_clusters + rpb - 1) \div rpb <= qq.refblocks /\ qq.refblocks <= (qq.file_clusters + 2 + rpb - 1) \div rpb

\* qcow2 -> raw equals the directly produced raw image; the two named deviations of the reader leave exactly their trace
ConvOK(o) == LET c == o.conv IN
    /\ c.have = 1
    /\ \/ c.eq = 1
       \/ /\ c.size_eq = 1
          /\ c.neq_blocks = (IF DevL1VsVirtualSize THEN c.neq_skipped ELSE 0) + (IF DevLastByteZeroed THEN c.neq_lastbyte ELSE 0)
          /\ (c.neq_skipped > 0 => o.q.l2_beyond_virtual > 0)

Clauses(o) == [rc     |-> o.rc = 0,
               source |-> SourceUntouched(o),
               tools  |-> (o.mode \in {"raw", "all"} => o.tools.have = 1 /\ ToolsAgree(o)),
               meta   |-> (o.mode \in {"raw", "qcow", "all", "qall"} => MetaPreservedOrDev(o)),
               image  |-> (o.mode \in {"raw", "qcow"} => MetaImagePost(o)),
               alldata |-> (IsAll(o) => AllDataPost(o) /\ o.tree_eq # 0),
               qcow   |-> (o.mode \in {"qcow", "qall"} => QcowStructure(o)),
               qlayout |-> (o.mode \in {"qcow", "qall"} => QcowLayout(o)),
               conv   |-> (o.mode \in {"q2r", "qall2r"} => ConvOK(o))]
Failed(o) == {k \in DOMAIN Clauses(o) : ~Clauses(o)[k]}

TRun == /\ l <= Len(Tr) /\ Tr[l].e = "Run"
        /\ LET bad == Failed(Tr[l]) IN
           IF bad # {} THEN PrintT(<<"BADLINE", l, bad, FailedClasses(Tr[l], IsAll(Tr[l]))>>) ELSE TRUE
        /\ l' = l + 1
\* the variables of the model are not used by the trace
TraceInit == l = 1 /\ phase = "trace" /\ cls = <<>> /\ src = <<>> /\ all = FALSE /\ marked = {} /\ raw = <<>> /\ q = <<>> /\ nb = 0 /\ conv = <<>>
TraceSpec == TraceInit /\ [][TRun /\ UNCHANGED vars]_<<l, vars>>
TraceAccepted == TLCGet("stats").diameter - 1 = Len(Tr)
=============================================================================
