------------------------------- MODULE HTree -------------------------------
(* Property C10, indexed directories: lib/ext2fs/link.c dx_lookup(), dx_link(), dx_grow_tree(), dx_split_leaf(),
   dx_move_dirents(), dx_insert_entry() on top of the block layout of DirBlock.

   A layout is ly = [b |-> sequence of ALL logical blocks as slot sequences (index blocks read as directory blocks:
                          the root is "." + ".." covering the block, an interior node is one unused slot of rec_len = blocksize),
                     inl |-> BOOLEAN,
                     dx |-> [lv |-> indirect_levels, nodes |-> [logical block of an index block (0 = root) ->
                                                               [limit |-> n, e |-> sequence of <<hash >> 1, hash & 1, block>>]]]]
   The first entry of every node stands for "hash 0" (its hash field is the count/limit header): <<0, 0, block>>.
   Hashes are carried as hash >> 1 (31 bits) plus the low "continued" bit, because TLC integers are 32-bit.
   NT[name id] = <<name_len, hash >> 1>> (the hash of a name always has bit 0 clear).
   g = [bs, tail, cs, nlim (entries an interior node holds), maxlv (2, or 3 with large_dir)].                          *)
EXTENDS Integers, Sequences, FiniteSets, TLC, DirBlock

NoDx == [lv |-> -1, nodes |-> <<>>]
\* from the observation: {"lv": n, "nodes": [[block, limit, [[h, c, blk], ...]], ...]}
DxOf(j) == [lv |-> j.lv,
            nodes |-> [k \in {j.nodes[x][1] : x \in 1..Len(j.nodes)} |->
                         LET n == j.nodes[CHOOSE x \in 1..Len(j.nodes) : j.nodes[x][1] = k] IN [limit |-> n[2], e |-> n[3]]]]

\* entry hash (2*e[1] + e[2]) <= name hash (2*h)
LE(e, h) == e[1] < h \/ (e[1] = h /\ e[2] = 0)
\* dx_search_entry: binary search; entries[0] is never compared.  1-based: es[1] is entries[0]
RECURSIVE Bs(_, _, _, _)
Bs(es, p, q, h) == IF p > q THEN p - 1
                   ELSE LET m == p + (q - p) \div 2 IN IF ~LE(es[m], h) THEN Bs(es, p, m - 1, h) ELSE Bs(es, m + 1, q, h)
At(es, h) == Bs(es, 2, Len(es), h)

\* dx_lookup: frames[0..lv] as a sequence of [node, at]
RECURSIVE Frames(_, _, _, _)
Frames(dx, node, level, h) ==
   LET a == At(dx.nodes[node].e, h) IN
   IF level = dx.lv THEN <<[node |-> node, at |-> a]>>
   ELSE <<[node |-> node, at |-> a]>> \o Frames(dx, dx.nodes[node].e[a][3], level + 1, h)
Path(dx, h) == Frames(dx, 0, 0, h)
LeafOf(dx, h) == LET p == Path(dx, h) f == p[Len(p)] IN dx.nodes[f.node].e[f.at][3]

InsertAfter(es, a, x) == SubSeq(es, 1, a) \o <<x>> \o SubSeq(es, a + 1, Len(es))

\* ---------------------------------------------------------------- dx_split_leaf
\* used slots with their sizes (actual rec_len) and hashes, sorted by hash (equal hashes: block order)
LiveIdx(blk) == {k \in 1..Len(blk) : blk[k][1] # 0 /\ blk[k][2] > 0}
Before(blk, NT, a, c) == NT[blk[a][5]][2] < NT[blk[c][5]][2] \/ (NT[blk[a][5]][2] = NT[blk[c][5]][2] /\ a < c)
Sorted(blk, NT) == LET S == LiveIdx(blk) IN
   [r \in 1..Cardinality(S) |-> CHOOSE k \in S : Cardinality({x \in S : Before(blk, NT, x, k)}) = r - 1]
\* "Find place to split block": from the top, stop when move_size + size/2 > blocksize/2; returns the last index that stays
RECURSIVE Cut(_, _, _, _, _)
Cut(blk, m, j, mv, bs) == IF j < 1 THEN 0
                          ELSE IF mv + blk[m[j]][3] \div 2 > bs \div 2 THEN j
                          ELSE Cut(blk, m, j - 1, mv + blk[m[j]][3], bs)
\* dx_move_dirents: minimal rec_len each, the last one stretched to the end of the block (before the checksum tail)
Pack(blk, idx, g) ==
   LET n == Len(idx)
       Pre[i \in 0..n] == IF i = 0 THEN 0 ELSE Pre[i - 1] + RL(blk[idx[i]][2])
   IN [i \in 1..n |-> LET e == blk[idx[i]] IN
                      Slot(e[1], e[2], IF i = n THEN (g.bs - g.tail) - Pre[n - 1] ELSE RL(e[2]), e[4], e[5])]

SplitLeaf(ly, path, leaf, newlb, NT, g) ==
   LET blk == ly.b[leaf + 1]
       m == Sorted(blk, NT)
       cnt == Len(m)
       keep == Cut(blk, m, cnt, 0, g.bs)                      \* m[1..keep] stay, m[keep+1..cnt] move
       hnew == NT[blk[m[keep + 1]][5]][2]
       cont == IF keep >= 1 /\ NT[blk[m[keep]][5]][2] = hnew THEN 1 ELSE 0
       f == path[Len(path)]
       b1 == [Append(ly.b, Pack(blk, SubSeq(m, keep + 1, cnt), g)) EXCEPT ![leaf + 1] = Pack(blk, SubSeq(m, 1, keep), g)]
   IN [ly EXCEPT !.b = b1, !.dx.nodes[f.node].e = InsertAfter(@, f.at, <<hnew, cont, newlb>>)]

\* ---------------------------------------------------------------- dx_grow_tree
\* returns [ok, ly]
GrowTree(ly, path, leaf, NT, g) ==
   LET dx == ly.dx
       levels == dx.lv + 1
       Room == {k \in 1..levels : Len(dx.nodes[path[k].node].e) < dx.nodes[path[k].node].limit}
       i == IF Room = {} THEN 0 ELSE CHOOSE k \in Room : \A y \in Room : y <= k      \* C's i, plus one
       newlb == Len(ly.b)
   IN IF i = 0 /\ levels >= g.maxlv THEN [ok |-> FALSE, ly |-> ly]
      ELSE IF i = levels THEN [ok |-> TRUE, ly |-> SplitLeaf(ly, path, leaf, newlb, NT, g)]
      ELSE LET b1 == Append(ly.b, <<Empty(g.bs)>>) IN
           IF i = 0
           THEN \* one more level: the root's entries move to the new block, the root keeps one entry naming it
                [ok |-> TRUE,
                 ly |-> [ly EXCEPT !.b = b1, !.dx.lv = @ + 1,
                                   !.dx.nodes = [k \in DOMAIN @ \cup {newlb} |->
                                                   IF k = newlb THEN [limit |-> g.nlim, e |-> dx.nodes[0].e]
                                                   ELSE IF k = 0 THEN [dx.nodes[0] EXCEPT !.e = << <<0, 0, newlb>> >>]
                                                   ELSE @[k]]]]
           ELSE \* split the interior node at level i (0-based i+1... frames[i+1]) in the middle; the parent gets one more entry
                LET nd == path[i + 1].node
                    es == dx.nodes[nd].e
                    c1 == Len(es) \div 2
                    sh == es[c1 + 1]
                    par == path[i]
                IN [ok |-> TRUE,
                    ly |-> [ly EXCEPT !.b = b1,
                                      !.dx.nodes = [k \in DOMAIN @ \cup {newlb} |->
                                                      IF k = newlb THEN [limit |-> g.nlim, e |-> << <<0, 0, sh[3]>> >> \o SubSeq(es, c1 + 2, Len(es))]
                                                      ELSE IF k = nd THEN [@[k] EXCEPT !.e = SubSeq(es, 1, c1)]
                                                      ELSE IF k = par.node THEN [@[k] EXCEPT !.e = InsertAfter(@, par.at, <<sh[1], sh[2], newlb>>)]
                                                      ELSE @[k]]]]

\* ---------------------------------------------------------------- dx_link
\* returns [b, dx, done]
RECURSIVE DxTry(_, _, _, _, _)
DxTry(ly, nw, NT, g, restart) ==
   LET h == NT[nw[5]][2]
       path == Path(ly.dx, h)
       levels == ly.dx.lv + 1
       f == path[levels]
       leaf == ly.dx.nodes[f.node].e[f.at][3]
       r == LinkBlk(ly.b[leaf + 1], 1, 0, nw, g.bs, g.cs)
       ly1 == [ly EXCEPT !.b[leaf + 1] = r[1]]
   IN IF r[2] THEN [b |-> ly1.b, dx |-> ly1.dx, done |-> TRUE]
      ELSE IF restart >= levels THEN [b |-> ly1.b, dx |-> ly1.dx, done |-> FALSE]
      ELSE LET gr == GrowTree(ly1, path, leaf, NT, g) IN
           IF ~gr.ok THEN [b |-> ly1.b, dx |-> ly1.dx, done |-> FALSE]
           ELSE DxTry(gr.ly, nw, NT, g, restart + 1)
DxLink(ly, nw, NT, g) == DxTry(ly, nw, NT, g, 0)

\* ---------------------------------------------------------------- e2fsck/rehash.c: what `e2fsck -D` writes
(* e2fsck_rehash_dir() reads every entry of a directory, sorts them and writes the directory anew:
     - "compress" (linear result) when the filesystem has no dir_index, the directory has fewer than two blocks, or the
       minimal record lengths of its names (without "." and "..") sum to less than blocksize - 24;  the entries are then
       ".", "..", the rest by inode number, packed with a slack of one minimal record (12 bytes);
     - otherwise an htree: block 0 is the root, the names sorted by hash fill the leaf blocks 1..nl (copy_dir_entries:
       a block is closed when the next record does not fit or when less than 20% of it is left), and calculate_tree()
       writes the index: ONE level when nl <= root limit, TWO when nl <= root limit * node limit, else THREE; interior
       nodes follow the leaves, each filled up to its limit before the next one is begun.
   The limits are the format's: root (bs - 32 - t) / 8, interior node (bs - 8 - t) / 8, t = 8 with metadata_csum.
   g carries them as g.rlim / g.nlim so that the model checker can scale them down.                                  *)
DxTail(g) == IF g.tail = 12 THEN 8 ELSE 0
RootLimit(g) == (g.bs - 32 - DxTail(g)) \div 8
NodeLimit(g) == (g.bs - 8 - DxTail(g)) \div 8
SlackPct == 20                                          \* e2fsck.conf [options] indexed_dir_slack_percentage, default
RebuildSlack(g, compress) == IF compress THEN 12
                             ELSE LET x == ((g.bs - g.tail) * SlackPct) \div 100 IN IF x < 12 THEN 12 ELSE x
Ceil(a, c) == (a + c - 1) \div c
\* names of one length that copy_dir_entries puts into one leaf block
PerLeaf(len, g) == LET cap == g.bs - g.tail  rl == RL(len)  sl == RebuildSlack(g, FALSE) IN
                   CHOOSE j \in 1..(cap \div rl) : /\ (cap - j * rl < sl \/ (j + 1) * rl > cap)
                                                   /\ \A i \in 1..(j - 1) : ~(cap - i * rl < sl \/ (i + 1) * rl > cap)

\* calculate_tree(): nl leaf blocks (logical blocks 1..nl), H[i] = <<hash >> 1, continued>> of the first name of leaf i
DxEnt(H, i, first, blk) == IF first THEN <<0, 0, blk>> ELSE <<H[i][1], H[i][2], blk>>
TreeLevels(nl, g) == IF nl <= g.rlim THEN 0 ELSE IF nl <= g.rlim * g.nlim THEN 1 ELSE 2
CalcTree(nl, H, g) ==
   LET c1 == g.rlim  c2 == g.nlim
       nn == Ceil(nl, c2)                                \* index nodes that point at leaves
       Low(m) == [limit |-> c2, e |-> [p \in 1..(IF m < nn THEN c2 ELSE nl - (nn - 1) * c2) |->
                                          LET i == (m - 1) * c2 + p IN DxEnt(H, i, p = 1, i)]]
   IN IF TreeLevels(nl, g) = 0
      THEN [lv |-> 0, nodes |-> (0 :> [limit |-> c1, e |-> [i \in 1..nl |-> DxEnt(H, i, i = 1, i)]])]
      ELSE IF TreeLevels(nl, g) = 1
      THEN [lv |-> 1, nodes |-> [b \in {0} \cup {nl + m : m \in 1..nn} |->
                                   IF b = 0 THEN [limit |-> c1, e |-> [m \in 1..nn |-> DxEnt(H, (m - 1) * c2 + 1, m = 1, nl + m)]]
                                   ELSE Low(b - nl)]]
      ELSE \* three levels: every second-level node is written right before its first child
           LET np == Ceil(nn, c2)
               Blk1(p) == nl + (p - 1) * (c2 + 1) + 1
               Blk2(m) == nl + m + Ceil(m, c2)
               Mid(p) == [limit |-> c2, e |-> [q \in 1..(IF p < np THEN c2 ELSE nn - (np - 1) * c2) |->
                                                 LET m == (p - 1) * c2 + q IN DxEnt(H, (m - 1) * c2 + 1, q = 1, Blk2(m))]]
           IN [lv |-> 2, nodes |-> [b \in {0} \cup {Blk1(p) : p \in 1..np} \cup {Blk2(m) : m \in 1..nn} |->
                                      IF b = 0 THEN [limit |-> c1, e |-> [p \in 1..np |-> DxEnt(H, (p - 1) * c2 * c2 + 1, p = 1, Blk1(p))]]
                                      ELSE IF \E p \in 1..np : Blk1(p) = b THEN Mid(CHOOSE p \in 1..np : Blk1(p) = b)
                                      ELSE Low(CHOOSE m \in 1..nn : Blk2(m) = b)]]

\* a block as copy_dir_entries leaves it: used slots only, minimal records, the last one stretched to the end, and the
\* block was not closed before its last record (the room left after every earlier record was at least the slack)
MinSum(b) == LET F[i \in 0..Len(b)] == IF i = 0 THEN 0 ELSE F[i - 1] + RL(b[i][2]) IN F
PackedBlock(b, cap, sl) ==
   LET n == Len(b)  P == MinSum(b) IN
   /\ n >= 1
   /\ \A k \in 1..n : b[k][1] # 0 /\ b[k][2] >= 1
   /\ \A k \in 1..(n - 1) : b[k][3] = RL(b[k][2]) /\ cap - P[k] >= sl
   /\ b[n][3] = cap - P[n - 1] /\ P[n] <= cap
\* why block b was closed before nxt (the first slot of the following block) was written
ClosedBefore(b, nxt, cap, sl) == LET left == cap - MinSum(b)[Len(b)] IN left < sl \/ RL(nxt[2]) > left
HashOf(e, NT) == NT[e[5]][2]

\* ly is what e2fsck -D writes for an indexed directory `self` (parent `parent`); extra = blocks of lost+found kept beyond the rebuilt ones
IsRebuiltDx(ly, self, parent, ftd, NT, g, extra) ==
   LET nb == Len(ly.b) - extra
       nl == nb - Cardinality(DOMAIN ly.dx.nodes)
       cap == g.bs - g.tail
       sl == RebuildSlack(g, FALSE)
       Lf(j) == ly.b[j + 1]
       H == [j \in 1..nl |-> <<HashOf(Lf(j)[1], NT),
                               IF j > 1 /\ HashOf(Lf(j - 1)[Len(Lf(j - 1))], NT) = HashOf(Lf(j)[1], NT) THEN 1 ELSE 0>>]
   IN /\ ly.dx # NoDx /\ ~ly.inl /\ nl >= 1
      /\ ly.b[1] = <<Slot(self, 1, 12, ftd, -1), Slot(parent, 2, g.bs - 12, ftd, -2)>>
      /\ \A j \in 1..nl : /\ PackedBlock(Lf(j), cap, sl)
                          /\ \A k \in 1..Len(Lf(j)) : Lf(j)[k][5] > 0
                          /\ \A k \in 1..(Len(Lf(j)) - 1) : HashOf(Lf(j)[k], NT) <= HashOf(Lf(j)[k + 1], NT)
      /\ \A j \in 1..(nl - 1) : /\ ClosedBefore(Lf(j), Lf(j + 1)[1], cap, sl)
                                /\ HashOf(Lf(j)[Len(Lf(j))], NT) <= HashOf(Lf(j + 1)[1], NT)
      /\ ly.dx = CalcTree(nl, H, g)
      /\ \A k \in (DOMAIN ly.dx.nodes) \ {0} : ly.b[k + 1] = <<Empty(g.bs)>>
      /\ \A j \in (nb + 1)..Len(ly.b) : ly.b[j] = <<Empty(cap)>>

\* ly is what e2fsck -D writes for a directory it leaves (or makes) linear
IsRebuiltLinear(ly, self, parent, ftd, g, extra) ==
   LET nb == Len(ly.b) - extra
       cap == g.bs - g.tail
       InoAt(j, k) == ly.b[j][k][1]
   IN /\ ly.dx = NoDx /\ ~ly.inl /\ nb >= 1
      /\ \A j \in 1..nb : PackedBlock(ly.b[j], cap, 12)
      /\ Len(ly.b[1]) >= 2
      /\ SubSeq(ly.b[1][1], 1, 2) = <<self, 1>> /\ ly.b[1][1][4] = ftd /\ ly.b[1][1][5] = -1
      /\ SubSeq(ly.b[1][2], 1, 2) = <<parent, 2>> /\ ly.b[1][2][4] = ftd /\ ly.b[1][2][5] = -2
      \* the names follow in inode order
      /\ \A j \in 1..nb : \A k \in 1..(Len(ly.b[j]) - 1) : (j > 1 \/ k > 2) => ly.b[j][k][5] > 0 /\ InoAt(j, k) <= InoAt(j, k + 1)
      /\ \A j \in 1..nb : (j > 1 \/ Len(ly.b[j]) > 2) => ly.b[j][Len(ly.b[j])][5] > 0
      /\ \A j \in 1..(nb - 1) : /\ ClosedBefore(ly.b[j], ly.b[j + 1][1], cap, 12)
                                /\ (j > 1 \/ Len(ly.b[1]) > 2) => InoAt(j, Len(ly.b[j])) <= InoAt(j + 1, 1)
      /\ \A j \in (nb + 1)..Len(ly.b) : ly.b[j] = <<Empty(cap)>>

\* bytes the names of a layout need (fd.dir_size), and the decision between the two forms
NameBytes(ly) == LET PerBlk(b) == LET F[i \in 0..Len(b)] == IF i = 0 THEN 0
                                                          ELSE F[i - 1] + (IF b[i][1] # 0 /\ b[i][5] > 0 THEN RL(b[i][2]) ELSE 0)
                                  IN F[Len(b)]
                     S[j \in 0..Len(ly.b)] == IF j = 0 THEN 0 ELSE S[j - 1] + PerBlk(ly.b[j])
                 IN S[Len(ly.b)]
RebuildIndexes(pre, g, dirindex) == dirindex /\ ~pre.inl /\ Len(pre.b) >= 2 /\ NameBytes(pre) >= g.bs - 24

\* functional form for small universes (model checking): m = the used slots in their final order
RebuildDx(m, self, parent, ftd, NT, g) ==
   LET n == Len(m)
       cap == g.bs - g.tail
       sl == RebuildSlack(g, FALSE)
       \* <<block of entry k, bytes of that block in use once k is written (the whole block if it is closed)>>
       Pl[k \in 0..n] == IF k = 0 THEN <<1, 0>>
                         ELSE LET p == Pl[k - 1]  rl == RL(m[k][2])
                                  q == IF rl > cap - p[2] THEN <<p[1] + 1, 0>> ELSE p
                                  u == q[2] + rl
                              IN <<q[1], IF cap - u < sl THEN cap ELSE u>>
       nl == Pl[n][1]
       Idx(j) == LET S == {k \in 1..n : Pl[k][1] = j} IN [r \in 1..Cardinality(S) |-> CHOOSE k \in S : Cardinality({x \in S : x < k}) = r - 1]
       leaves == [j \in 1..nl |-> Pack(m, Idx(j), g)]
       H == [j \in 1..nl |-> <<HashOf(leaves[j][1], NT),
                               IF j > 1 /\ HashOf(leaves[j - 1][Len(leaves[j - 1])], NT) = HashOf(leaves[j][1], NT) THEN 1 ELSE 0>>]
       dx == CalcTree(nl, H, g)
       nb == 1 + nl + Cardinality(DOMAIN dx.nodes) - 1
   IN [b |-> [j \in 1..nb |-> IF j = 1 THEN <<Slot(self, 1, 12, ftd, -1), Slot(parent, 2, g.bs - 12, ftd, -2)>>
                              ELSE IF j <= nl + 1 THEN leaves[j - 1] ELSE <<Empty(g.bs)>>],
       inl |-> FALSE, dx |-> dx]

\* ---------------------------------------------------------------- boundary catalogue (the directory sizes the check must visit)
(* The index changes shape where the number of leaf blocks passes the root limit (one level -> two), the node limit
   (one interior node -> two), and root limit * node limit (two levels -> three).  For each geometry and each of these
   limits c the rebuilt directory must be visited with c - 1, c, c + 1 and c + 2 leaf blocks.                       *)
Geometry(bs, csum) == LET g0 == [bs |-> bs, tail |-> IF csum = 1 THEN 12 ELSE 0, cs |-> IF csum = 1 THEN 12 ELSE 0] IN
                      [bs |-> g0.bs, tail |-> g0.tail, cs |-> g0.cs, rlim |-> RootLimit(g0), nlim |-> NodeLimit(g0), maxlv |-> 2]
Boundaries(g) == {[kind |-> "root", at |-> g.rlim], [kind |-> "node", at |-> g.nlim], [kind |-> "level", at |-> g.rlim * g.nlim]}
Catalogue(BSs, Csums, len) ==
   UNION {LET g == Geometry(bs, c) IN
          UNION {{[bs |-> bs, csum |-> c, kind |-> bd.kind, at |-> bd.at, leaves |-> bd.at + k, per |-> PerLeaf(len, g), len |-> len,
                   levels |-> TreeLevels(bd.at + k, g), rlim |-> g.rlim, nlim |-> g.nlim]
                  : k \in {-1, 0, 1, 2}} : bd \in Boundaries(g)} : bs \in BSs, c \in Csums}

\* ---------------------------------------------------------------- invariants
LeafIdx(ly) =={j \in 1..Len(ly.b) : ly.dx = NoDx \/ (j - 1) \notin DOMAIN ly.dx.nodes}
\* lower / upper bound tests for a name hash h against index entries (the low bit of an entry = "continued")
AboveLo(e, h) == e[1] <= h
BelowHi(e, h) == h < e[1] \/ (h = e[1] /\ e[2] = 1)
NameHashes(blk, NT) == {NT[blk[k][5]][2] : k \in {x \in 1..Len(blk) : blk[x][1] # 0 /\ blk[x][5] > 0}}
\* subtree below entry p of node nd covers [lo, hi); level = depth of nd
RECURSIVE RangeOK(_, _, _, _, _, _)
RangeOK(ly, NT, nd, level, lo, hi) ==
   LET es == ly.dx.nodes[nd].e IN
   \A p \in 1..Len(es) :
      LET lo1 == IF p = 1 THEN lo ELSE es[p]
          hi1 == IF p = Len(es) THEN hi ELSE es[p + 1]
          c == es[p][3]
      IN IF level = ly.dx.lv
         THEN /\ c >= 1 /\ c < Len(ly.b) /\ c \notin DOMAIN ly.dx.nodes
              /\ \A h \in NameHashes(ly.b[c + 1], NT) : AboveLo(lo1, h) /\ (hi1[1] < 0 \/ BelowHi(hi1, h))
         ELSE c \in DOMAIN ly.dx.nodes /\ RangeOK(ly, NT, c, level + 1, lo1, hi1)
Referenced(ly) == LET last == {nd \in DOMAIN ly.dx.nodes : TRUE} IN
   UNION {{ly.dx.nodes[nd].e[p][3] : p \in 1..Len(ly.dx.nodes[nd].e)} : nd \in DOMAIN ly.dx.nodes}
DxInvariant(ly, NT, g) ==
   /\ ly.dx.lv >= 0 /\ ly.dx.lv < g.maxlv /\ 0 \in DOMAIN ly.dx.nodes
   /\ \A nd \in DOMAIN ly.dx.nodes :
        LET es == ly.dx.nodes[nd].e IN
        /\ Len(es) >= 1 /\ Len(es) <= ly.dx.nodes[nd].limit
        /\ \A p \in 2..(Len(es) - 1) : es[p][1] < es[p + 1][1] \/ (es[p][1] = es[p + 1][1] /\ es[p][2] < es[p + 1][2])
   /\ RangeOK(ly, NT, 0, 0, <<0, 0, 0>>, <<-1, 0, 0>>)
   \* a block that holds names is reachable from the index, and no block is referenced twice
   /\ \A j \in LeafIdx(ly) : NameHashes(ly.b[j], NT) # {} => (j - 1) \in Referenced(ly)
   /\ \A n1, n2 \in DOMAIN ly.dx.nodes : \A p1 \in 1..Len(ly.dx.nodes[n1].e), p2 \in 1..Len(ly.dx.nodes[n2].e) :
         (ly.dx.nodes[n1].e[p1][3] = ly.dx.nodes[n2].e[p2][3]) => (n1 = n2 /\ p1 = p2)
\* dx_lookup leads to the block that holds the name (or, with the "continued" bit, to the first block of its chain)
LookupFinds(ly, NT, nid) ==
   LET h == NT[nid][2]  c == LeafOf(ly.dx, h) IN
   \/ \E k \in 1..Len(ly.b[c + 1]) : ly.b[c + 1][k][1] # 0 /\ ly.b[c + 1][k][5] = nid
   \/ \E nd \in DOMAIN ly.dx.nodes : \E p \in 2..Len(ly.dx.nodes[nd].e) :
         ly.dx.nodes[nd].e[p][1] = h /\ ly.dx.nodes[nd].e[p][2] = 1
=============================================================================
