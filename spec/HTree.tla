------------------------------- MODULE HTree -------------------------------
(* Property C10, indexed directories: lib/ext2fs/link.c dx_lookup(), dx_link(), dx_grow_tree(), dx_split_leaf(),
   dx_move_dirents(), dx_insert_entry() on top of the block layout of DirBlock.

   A layout is ly = [b |-> sequence of ALL logical blocks as slot sequences (index blocks read as directory blocks:
                          the root is "." + ".." covering the block, an interior node is one unused slot of rec_len = blocksize),
                     inl |-> BOOLEAN,
                     dx |-> [lv |-> indirect_levels, nodes |-> [logical block of an index block (0 = root) ->
                                                               [limit |-> n, e |-> sequence of <<hash >> 1, hash & 1, block>>]]]]
   The first entry of every node stands for "hash 0" (its hash field is the count/limit header): <<0, 0, block>>.
   Hashes are carried as hash >> 1 (31 bits) plus the low "continued" bit, because TLC integers are 32-bit.
   NT[name id] = <<name_len, hash >> 1>> (the hash of a name always has bit 0 clear).
   g = [bs, tail, cs, nlim (entries an interior node holds), maxlv (2, or 3 with large_dir)].                          *)
EXTENDS Integers, Sequences, FiniteSets, TLC, DirBlock

NoDx == [lv |-> -1, nodes |-> <<>>]
\* from the observation: {"lv": n, "nodes": [[block, limit, [[h, c, blk], ...]], ...]}
DxOf(j) == [lv |-> j.lv,
            nodes |-> [k \in {j.nodes[x][1] : x \in 1..Len(j.nodes)} |->
                         LET n == j.nodes[CHOOSE x \in 1..Len(j.nodes) : j.nodes[x][1] = k] IN [limit |-> n[2], e |-> n[3]]]]

\* entry hash (2*e[1] + e[2]) <= name hash (2*h)
LE(e, h) == e[1] < h \/ (e[1] = h /\ e[2] = 0)
\* dx_search_entry: binary search; entries[0] is never compared.  1-based: es[1] is entries[0]
RECURSIVE Bs(_, _, _, _)
Bs(es, p, q, h) == IF p > q THEN p - 1
                   ELSE LET m == p + (q - p) \div 2 IN IF ~LE(es[m], h) THEN Bs(es, p, m - 1, h) ELSE Bs(es, m + 1, q, h)
At(es, h) == Bs(es, 2, Len(es), h)

\* dx_lookup: frames[0..lv] as a sequence of [node, at]
RECURSIVE Frames(_, _, _, _)
Frames(dx, node, level, h) ==
   LET a == At(dx.nodes[node].e, h) IN
   IF level = dx.lv THEN <<[node |-> node, at |-> a]>>
   ELSE <<[node |-> node, at |-> a]>> \o Frames(dx, dx.nodes[node].e[a][3], level + 1, h)
Path(dx, h) == Frames(dx, 0, 0, h)
LeafOf(dx, h) == LET p == Path(dx, h) f == p[Len(p)] IN dx.nodes[f.node].e[f.at][3]

InsertAfter(es, a, x) == SubSeq(es, 1, a) \o <<x>> \o SubSeq(es, a + 1, Len(es))

\* ---------------------------------------------------------------- dx_split_leaf
\* used slots with their sizes (actual rec_len) and hashes, sorted by hash (equal hashes: block order)
LiveIdx(blk) == {k \in 1..Len(blk) : blk[k][1] # 0 /\ blk[k][2] > 0}
Before(blk, NT, a, c) == NT[blk[a][5]][2] < NT[blk[c][5]][2] \/ (NT[blk[a][5]][2] = NT[blk[c][5]][2] /\ a < c)
Sorted(blk, NT) == LET S == LiveIdx(blk) IN
   [r \in 1..Cardinality(S) |-> CHOOSE k \in S : Cardinality({x \in S : Before(blk, NT, x, k)}) = r - 1]
\* "Find place to split block": from the top, stop when move_size + size/2 > blocksize/2; returns the last index that stays
RECURSIVE Cut(_, _, _, _, _)
Cut(blk, m, j, mv, bs) == IF j < 1 THEN 0
                          ELSE IF mv + blk[m[j]][3] \div 2 > bs \div 2 THEN j
                          ELSE Cut(blk, m, j - 1, mv + blk[m[j]][3], bs)
\* dx_move_dirents: minimal rec_len each, the last one stretched to the end of the block (before the checksum tail)
Pack(blk, idx, g) ==
   LET n == Len(idx)
       Pre[i \in 0..n] == IF i = 0 THEN 0 ELSE Pre[i - 1] + RL(blk[idx[i]][2])
   IN [i \in 1..n |-> LET e == blk[idx[i]] IN
                      Slot(e[1], e[2], IF i = n THEN (g.bs - g.tail) - Pre[n - 1] ELSE RL(e[2]), e[4], e[5])]

SplitLeaf(ly, path, leaf, newlb, NT, g) ==
   LET blk == ly.b[leaf + 1]
       m == Sorted(blk, NT)
       cnt == Len(m)
       keep == Cut(blk, m, cnt, 0, g.bs)                      \* m[1..keep] stay, m[keep+1..cnt] move
       hnew == NT[blk[m[keep + 1]][5]][2]
       cont == IF keep >= 1 /\ NT[blk[m[keep]][5]][2] = hnew THEN 1 ELSE 0
       f == path[Len(path)]
       b1 == [Append(ly.b, Pack(blk, SubSeq(m, keep + 1, cnt), g)) EXCEPT ![leaf + 1] = Pack(blk, SubSeq(m, 1, keep), g)]
   IN [ly EXCEPT !.b = b1, !.dx.nodes[f.node].e = InsertAfter(@, f.at, <<hnew, cont, newlb>>)]

\* ---------------------------------------------------------------- dx_grow_tree
\* returns [ok, ly]
GrowTree(ly, path, leaf, NT, g) ==
   LET dx == ly.dx
       levels == dx.lv + 1
       Room == {k \in 1..levels : Len(dx.nodes[path[k].node].e) < dx.nodes[path[k].node].limit}
       i == IF Room = {} THEN 0 ELSE CHOOSE k \in Room : \A y \in Room : y <= k      \* C's i, plus one
       newlb == Len(ly.b)
   IN IF i = 0 /\ levels >= g.maxlv THEN [ok |-> FALSE, ly |-> ly]
      ELSE IF i = levels THEN [ok |-> TRUE, ly |-> SplitLeaf(ly, path, leaf, newlb, NT, g)]
      ELSE LET b1 == Append(ly.b, <<Empty(g.bs)>>) IN
           IF i = 0
           THEN \* one more level: the root's entries move to the new block, the root keeps one entry naming it
                [ok |-> TRUE,
                 ly |-> [ly EXCEPT !.b = b1, !.dx.lv = @ + 1,
                                   !.dx.nodes = [k \in DOMAIN @ \cup {newlb} |->
                                                   IF k = newlb THEN [limit |-> g.nlim, e |-> dx.nodes[0].e]
                                                   ELSE IF k = 0 THEN [dx.nodes[0] EXCEPT !.e = << <<0, 0, newlb>> >>]
                                                   ELSE @[k]]]]
           ELSE \* split the interior node at level i (0-based i+1... frames[i+1]) in the middle; the parent gets one more entry
                LET nd == path[i + 1].node
                    es == dx.nodes[nd].e
                    c1 == Len(es) \div 2
                    sh == es[c1 + 1]
                    par == path[i]
                IN [ok |-> TRUE,
                    ly |-> [ly EXCEPT !.b = b1,
                                      !.dx.nodes = [k \in DOMAIN @ \cup {newlb} |->
                                                      IF k = newlb THEN [limit |-> g.nlim, e |-> << <<0, 0, sh[3]>> >> \o SubSeq(es, c1 + 2, Len(es))]
                                                      ELSE IF k = nd THEN [@[k] EXCEPT !.e = SubSeq(es, 1, c1)]
                                                      ELSE IF k = par.node THEN [@[k] EXCEPT !.e = InsertAfter(@, par.at, <<sh[1], sh[2], newlb>>)]
                                                      ELSE @[k]]]]

\* ---------------------------------------------------------------- dx_link
\* returns [b, dx, done]
RECURSIVE DxTry(_, _, _, _, _)
DxTry(ly, nw, NT, g, restart) ==
   LET h == NT[nw[5]][2]
       path == Path(ly.dx, h)
       levels == ly.dx.lv + 1
       f == path[levels]
       leaf == ly.dx.nodes[f.node].e[f.at][3]
       r == LinkBlk(ly.b[leaf + 1], 1, 0, nw, g.bs, g.cs)
       ly1 == [ly EXCEPT !.b[leaf + 1] = r[1]]
   IN IF r[2] THEN [b |-> ly1.b, dx |-> ly1.dx, done |-> TRUE]
      ELSE IF restart >= levels THEN [b |-> ly1.b, dx |-> ly1.dx, done |-> FALSE]
      ELSE LET gr == GrowTree(ly1, path, leaf, NT, g) IN
           IF ~gr.ok THEN [b |-> ly1.b, dx |-> ly1.dx, done |-> FALSE]
           ELSE DxTry(gr.ly, nw, NT, g, restart + 1)
DxLink(ly, nw, NT, g) == DxTry(ly, nw, NT, g, 0)

\* ---------------------------------------------------------------- invariants
LeafIdx(ly) == {j \in 1..Len(ly.b) : ly.dx = NoDx \/ (j - 1) \notin DOMAIN ly.dx.nodes}
\* lower / upper bound tests for a name hash h against index entries (the low bit of an entry = "continued")
AboveLo(e, h) == e[1] <= h
BelowHi(e, h) == h < e[1] \/ (h = e[1] /\ e[2] = 1)
NameHashes(blk, NT) == {NT[blk[k][5]][2] : k \in {x \in 1..Len(blk) : blk[x][1] # 0 /\ blk[x][5] > 0}}
\* subtree below entry p of node nd covers [lo, hi); level = depth of nd
RECURSIVE RangeOK(_, _, _, _, _, _)
RangeOK(ly, NT, nd, level, lo, hi) ==
   LET es == ly.dx.nodes[nd].e IN
   \A p \in 1..Len(es) :
      LET lo1 == IF p = 1 THEN lo ELSE es[p]
          hi1 == IF p = Len(es) THEN hi ELSE es[p + 1]
          c == es[p][3]
      IN IF level = ly.dx.lv
         THEN /\ c >= 1 /\ c < Len(ly.b) /\ c \notin DOMAIN ly.dx.nodes
              /\ \A h \in NameHashes(ly.b[c + 1], NT) : AboveLo(lo1, h) /\ (hi1[1] < 0 \/ BelowHi(hi1, h))
         ELSE c \in DOMAIN ly.dx.nodes /\ RangeOK(ly, NT, c, level + 1, lo1, hi1)
Referenced(ly) == LET last == {nd \in DOMAIN ly.dx.nodes : TRUE} IN
   UNION {{ly.dx.nodes[nd].e[p][3] : p \in 1..Len(ly.dx.nodes[nd].e)} : nd \in DOMAIN ly.dx.nodes}
DxInvariant(ly, NT, g) ==
   /\ ly.dx.lv >= 0 /\ ly.dx.lv < g.maxlv /\ 0 \in DOMAIN ly.dx.nodes
   /\ \A nd \in DOMAIN ly.dx.nodes :
        LET es == ly.dx.nodes[nd].e IN
        /\ Len(es) >= 1 /\ Len(es) <= ly.dx.nodes[nd].limit
        /\ \A p \in 2..(Len(es) - 1) : es[p][1] < es[p + 1][1] \/ (es[p][1] = es[p + 1][1] /\ es[p][2] < es[p + 1][2])
   /\ RangeOK(ly, NT, 0, 0, <<0, 0, 0>>, <<-1, 0, 0>>)
   \* a block that holds names is reachable from the index, and no block is referenced twice
   /\ \A j \in LeafIdx(ly) : NameHashes(ly.b[j], NT) # {} => (j - 1) \in Referenced(ly)
   /\ \A n1, n2 \in DOMAIN ly.dx.nodes : \A p1 \in 1..Len(ly.dx.nodes[n1].e), p2 \in 1..Len(ly.dx.nodes[n2].e) :
         (ly.dx.nodes[n1].e[p1][3] = ly.dx.nodes[n2].e[p2][3]) => (n1 = n2 /\ p1 = p2)
\* dx_lookup leads to the block that holds the name (or, with the "continued" bit, to the first block of its chain)
LookupFinds(ly, NT, nid) ==
   LET h == NT[nid][2]  c == LeafOf(ly.dx, h) IN
   \/ \E k \in 1..Len(ly.b[c + 1]) : ly.b[c + 1][k][1] # 0 /\ ly.b[c + 1][k][5] = nid
   \/ \E nd \in DOMAIN ly.dx.nodes : \E p \in 2..Len(ly.dx.nodes[nd].e) :
         ly.dx.nodes[nd].e[p][1] = h /\ ly.dx.nodes[nd].e[p][2] = 1
=============================================================================
