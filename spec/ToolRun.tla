------------------------------ MODULE ToolRun ------------------------------
(* C13 -- generic invocation of an e2fsprogs tool over one target device.

   The device is abstracted to a CONTENT VERSION: two device states are equal iff their version numbers are
   (the harness compares sha256 digests; every effective write-class call makes a new version -- a write that
   stores the bytes already present is still a device write: the property is stated "at the level of device
   writes", and on a block device it is one).

   The invocation CLASS is a parameter of the run:
     "ro"  the command line is documented as non-modifying (e2fsck -n, debugfs without -w, dumpe2fs, tune2fs -l,
           resize2fs -P, e2image reading its source, e2freefrag, e2undo -n, mke2fs -n)
     "rw"  anything else (control runs: they show that the recorder sees writes).

   What the protocol allows:
     * Open(fd, mode, trunc): any access mode in any class (mke2fs -n opens O_RDWR|O_EXCL and never writes: the
       open mode is recorded, it is not part of the oracle); O_TRUNC / O_CREAT is itself a modification and is
       write-class.
     * DevWrite / DevTruncate / DevFallocate on a fd whose mode permits writing: enabled only in class "rw".
     * DevWriteRefused: a write-class call on an O_RDONLY fd is refused by the kernel (EBADF), the device cannot
       change; allowed in any class and counted (reported by the check as an observation).
     * DevFsync, Close: no effect on the content.
     * Exit(code): the process ends by itself; open fds are closed by the kernel (resize2fs -P and mke2fs -n do
       leave the target open at exit -- measured).  Killed(sig): the environment ends it (crash on a corrupted
       image or the harness' 20 s timeout): that is property C06's business, but ReadOnlyNeverModifies still has
       to hold on such a run.

   Properties:
     ReadOnlyNeverModifies  class = "ro" => [][device' = device]_vars        (C13)
     RoUnmodified           its state form: in class "ro" device = dev0 and the modified flag is never set
     ExitDocumented         the exit-status contract table (below): a run that exits by itself does so with a
                            documented code of its tool.                                                     *)
EXTENDS Integers, FiniteSets

CONSTANTS Fds,          \* file descriptor numbers
          MaxVer,       \* bound of the version counter  (model checking only; CONSTRAINT VerBound)
          MaxRefused,   \* bound of the refused-call counter (model checking only)
          Signals       \* signal numbers the environment may deliver

VARIABLES tool,         \* which program runs            (fixed during a run)
          class,        \* "ro" | "rw"                   (fixed during a run)
          device,       \* content version of the target
          dev0,         \* content version when the run started
          open,         \* set of <<fd, mode>>: open descriptors of the target
          modified,     \* an effective write-class call happened
          refused,      \* number of write-class calls refused by the kernel (read-only descriptor)
          pc,           \* "idle" | "run" | "exited" | "killed"
          code,         \* exit status (pc = "exited"), else -1
          sig           \* terminating signal (pc = "killed"), else 0

vars == <<tool, class, device, dev0, open, modified, refused, pc, code, sig>>

ToolNames == {"e2fsck", "debugfs", "debugfs_script", "dumpe2fs", "tune2fs", "resize2fs", "e2image",
              "e2freefrag", "e2undo", "mke2fs"}
Classes   == {"ro", "rw"}
Modes     == {"rdonly", "rdwr", "wronly"}
Writable(m) == m \in {"rdwr", "wronly"}

OpenFds    == {p[1] : p \in open}
ModeOf(fd) == (CHOOSE p \in open : p[1] = fd)[2]

-----------------------------------------------------------------------------
(* Exit-status contract table.
   e2fsck(8) EXIT CODE: the sum of 0 no errors, 1 errors corrected, 2 corrected + reboot, 4 errors left uncorrected,
   8 operational error, 16 usage or syntax error, 32 canceled by user request, 128 shared-library error.
   Bits 1 and 2 claim that the file system was changed: they cannot be documented outcomes of a read-only run.
   The other tools have no EXIT section in their manual pages; the table transcribes their exit() calls:
   0 success / 1 failure (debugfs -R: number of failed requests = 0 or 1; debugfs -f: number of failed requests
   of the script, the harness uses scripts of at most MaxScript requests; dumpe2fs: `return retval` with the
   library error code, or 2 for -m without MMP, so any status can be seen on a damaged image).               *)
HasBit(c, b) == (c \div b) % 2 = 1
FsckCodes    == {c \in 0..255 : ~HasBit(c, 64)}
FsckRoCodes  == {c \in FsckCodes : ~HasBit(c, 1) /\ ~HasBit(c, 2)}
MaxScript    == 16
DocExit(t, cl) == CASE t = "e2fsck"         -> IF cl = "ro" THEN FsckRoCodes ELSE FsckCodes
                    [] t = "debugfs_script" -> 0..MaxScript
                    [] t = "dumpe2fs"       -> 0..255      \* main() returns the errcode_t of the failure: its low byte
                    [] OTHER                -> {0, 1}

-----------------------------------------------------------------------------
Init == /\ tool \in ToolNames /\ class \in Classes
        /\ device = 0 /\ dev0 = 0 /\ open = {} /\ modified = FALSE /\ refused = 0
        /\ pc = "run" /\ code = -1 /\ sig = 0

Fixed == UNCHANGED <<tool, class, dev0>>
Alive == pc = "run"
Still == UNCHANGED <<device, modified>>

\* every effective write-class call goes through here
Modify == /\ class = "rw"
          /\ device' = device + 1 /\ modified' = TRUE

Open(fd, m, trunc) ==
    /\ Alive /\ fd \notin OpenFds /\ m \in Modes
    /\ open' = open \cup {<<fd, m>>}
    /\ IF trunc THEN Modify ELSE Still
    /\ UNCHANGED <<refused, pc, code, sig>> /\ Fixed

WriteClass(fd) == /\ Alive /\ fd \in OpenFds /\ Writable(ModeOf(fd))
                  /\ Modify
                  /\ UNCHANGED <<open, refused, pc, code, sig>> /\ Fixed
DevWrite(fd, off, len) == WriteClass(fd) /\ off >= 0 /\ len >= 0          \* write, pwrite, pwritev
DevTruncate(fd, len)   == WriteClass(fd) /\ len >= 0                      \* ftruncate
DevFallocate(fd, mode, off, len) == WriteClass(fd) /\ off >= 0 /\ len >= 0 \* fallocate (allocate, punch, zero), posix_fallocate

DevWriteRefused(fd) == /\ Alive /\ fd \in OpenFds /\ ~Writable(ModeOf(fd))
                       /\ refused' = refused + 1
                       /\ Still /\ UNCHANGED <<open, pc, code, sig>> /\ Fixed

DevFsync(fd) == /\ Alive /\ fd \in OpenFds
                /\ UNCHANGED vars

Close(fd) == /\ Alive /\ fd \in OpenFds
             /\ open' = {p \in open : p[1] # fd}
             /\ Still /\ UNCHANGED <<refused, pc, code, sig>> /\ Fixed

\* the protocol step (any status) and the contract (documented status)
ExitAny(c) == /\ Alive /\ c \in 0..255
              /\ pc' = "exited" /\ code' = c /\ open' = {}
              /\ Still /\ UNCHANGED <<refused, sig>> /\ Fixed
Exit(c)    == c \in DocExit(tool, class) /\ ExitAny(c)

KilledAny(s) == /\ Alive /\ s > 0
                /\ pc' = "killed" /\ sig' = s /\ open' = {}
                /\ Still /\ UNCHANGED <<refused, code>> /\ Fixed
Killed(s)    == s \in Signals /\ KilledAny(s)

Next == \/ \E fd \in Fds, m \in Modes, t \in BOOLEAN : Open(fd, m, t)
        \/ \E fd \in Fds : \/ DevWrite(fd, 0, 0) \/ DevTruncate(fd, 0) \/ DevFallocate(fd, 0, 0, 0)
                           \/ DevWriteRefused(fd) \/ DevFsync(fd) \/ Close(fd)
        \/ \E c \in 0..255 : Exit(c)
        \/ \E s \in Signals : Killed(s)

Spec == Init /\ [][Next]_vars

-----------------------------------------------------------------------------
TypeOK == /\ tool \in ToolNames /\ class \in Classes
          /\ device \in Nat /\ dev0 \in Nat /\ device >= dev0
          /\ open \subseteq (Fds \X Modes)
          /\ \A p, q \in open : p[1] = q[1] => p = q                \* one mode per open fd
          /\ modified \in BOOLEAN /\ refused \in Nat
          /\ pc \in {"idle", "run", "exited", "killed"}
          /\ code \in -1..255 /\ sig \in Nat
          /\ (pc \in {"exited", "killed"} => open = {})

\* C13, temporal form (what the property text says) and state form (what a trace can be checked against line by line)
ReadOnlyNeverModifies == [][class = "ro" => device' = device]_vars
RoUnmodified          == class = "ro" => (device = dev0 /\ ~modified)
ModifiedIffVersion    == modified <=> device # dev0
ExitDocumented        == pc = "exited" => code \in DocExit(tool, class)
\* sanity of the table itself: success is documented for every tool, and a read-only e2fsck never claims a repair
TableSane == /\ \A t \in ToolNames, cl \in Classes : 0 \in DocExit(t, cl)
             /\ DocExit("e2fsck", "ro") \subseteq DocExit("e2fsck", "rw")
             /\ {4, 8, 12} \subseteq DocExit("e2fsck", "ro") /\ {1, 2, 3, 5, 64} \cap DocExit("e2fsck", "ro") = {}

VerBound == device < MaxVer /\ refused < MaxRefused
=============================================================================
