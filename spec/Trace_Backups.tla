--------------------------- MODULE Trace_Backups ---------------------------
(* C20 conformance.  One behaviour = one image: a "mkfs" line (reset), then one line per successful tool run, then
   "recover" / "plain" / "plaingd" lines (the property's experiment, carried out on copies).  Every line carries what the independent
   parser (checks/c20.py) read from the image AFTER the run:
     obs.prim = {sb: s, gd: [[digest of block 1's table locations], ...]}
     obs.osb  = [{g, s}]      every group 1..gdc-1 whose first block is a valid superblock copy (magic, group number, checksum)
     obs.ogd  = [{g, gd}]     the old-style descriptor table behind each such copy (no meta_bg)
     obs.omg  = [{m, k, v}]   meta_bg: descriptor block m as found in the 2nd (k = 1) / last (k = 2) group of meta group m
     geo      = {bs, bpg, first}   block size, blocks per group, first data block of the primary superblock (never change)
   A tool line must be the step the corresponding action of Backups.tla takes from the CURRENT SPEC STATE, and the state
   the action produces must be what was observed at every prescribed location (Match); no group outside the prescribed
   set may hold a current copy (exactness).  Recovery lines: wherever the model says the location restores the primary,
   `e2fsck -fy -b` must succeed, `e2fsck -fn` must exit 0, the tree digest must be unchanged, the restored primary and
   every prescribed backup must again equal the model's state.  All invariants of Backups.tla are evaluated by TLC in
   every state of every behaviour.                                                                                     *)
EXTENDS Backups, Json, IOUtils
VARIABLE l
tvars == <<vars, l>>
Tr == ndJsonDeserialize(IOEnv.TRACE)
L == Tr[l]
IsEvent(e) == l <= Len(Tr) /\ L.e = e /\ l' = l + 1

Pick(q, P(_)) == LET H == {i \in 1..Len(q) : P(q[i])} IN IF H = {} THEN <<>> ELSE <<q[CHOOSE i \in H : TRUE]>>
ObsSb(o, g) == LET r == Pick(o.osb, LAMBDA x : x.g = g) IN IF r = <<>> THEN <<>> ELSE <<r[1].s>>
ObsGd(o, g) == LET r == Pick(o.ogd, LAMBDA x : x.g = g) IN IF r = <<>> THEN <<>> ELSE <<r[1].gd>>
ObsMg(o, mk) == LET r == Pick(o.omg, LAMBDA x : x.m = mk[1] /\ x.k = mk[2]) IN IF r = <<>> THEN <<>> ELSE <<r[1].v>>
NS == L.obs.prim.sb
NG == L.obs.prim.gd
\* the state reached = the observation, at every prescribed location; nothing current elsewhere
Match == /\ prim' = [sb |-> <<NS>>, gd |-> NG] /\ geo' = L.geo
         /\ \A g \in SbLocs(NS) : sbk'[g] = ObsSb(L.obs, g)
         /\ \A g \in GdLocs(NS) : gdk'[g] = ObsGd(L.obs, g)
         /\ \A mk \in MgLocs(NS) : mgk'[mk] = ObsMg(L.obs, mk)
         /\ \A g \in (1..(NS.gdc - 1)) \ SbLocs(NS) : ObsSb(L.obs, g) # <<NS>>

\* e2fsck -fn after the tool run (after the e2fsck tune2fs asked for, when it asks): the image the next step and the
\* recovery experiment start from is consistent
Clean == L.fn = 0
TMkfs == IsEvent("mkfs") /\ Mkfs(NS, NG, L.geo) /\ Match
TResize == IsEvent("resize") /\ Resize(NS, NG) /\ Match /\ Clean
TResize64 == IsEvent("resize64") /\ Resize64(NS, NG) /\ Match /\ Clean
TTuneFeat == IsEvent("tunefeat") /\ (\E full \in BOOLEAN : TuneFeature(NS, NG, full)) /\ Match /\ Clean
TTuneUUID == IsEvent("uuid") /\ (\E full \in BOOLEAN : TuneUUID(NS, NG, full)) /\ Match /\ Clean
TTuneISize == IsEvent("isize") /\ TuneISize(NS, NG) /\ Match /\ Clean
\* primary-only change made by the harness itself (own writer): nothing else moves
TEnv == IsEvent("env") /\ EnvPrimary(NS, NG) /\ Match
\* corruption that leaves superblock fields, table locations and backups alone (a wrong free count)
TEnvData == IsEvent("envdata") /\ Alive /\ last # "env" /\ NS = Cur /\ NG = prim.gd /\ last' = "env"
            /\ UNCHANGED <<prim, sbk, gdk, mgk, steps, saved, rec, geo>> /\ Match
\* the first backup copy is stale (harness writes an older feature word into it)
TEnvBackup == /\ IsEvent("envbk") /\ Alive /\ last # "env" /\ L.g = FirstCopy /\ L.g # 0
              /\ sbk' = [sbk EXCEPT ![L.g] = ObsSb(L.obs, L.g)] /\ sbk'[L.g] # <<>> /\ last' = "env"
              /\ UNCHANGED <<prim, gdk, mgk, steps, saved, rec, geo>> /\ Match
TFsck == /\ IsEvent("fsck")
         /\ IF L.frombackup = 1 THEN FsckFromBackup ELSE \E force \in BOOLEAN : FsckRepair(force)
         /\ Match /\ Clean

\* ------------------------------------------------------------------ recovery experiments (on copies: the state stays)
Destroyed == [sb |-> <<>>, gd |-> IF Cur.metabg THEN [i \in 1..Len(prim.gd) |-> IF <<i - 1, 1>> \in MgLocs(Cur) THEN <<>> ELSE prim.gd[i]] ELSE <<>>]
Restores(g) == ReadFrom(g, Destroyed.gd) = prim
ObsAllCurrent(o) == /\ o.prim = [sb |-> Cur, gd |-> prim.gd]
                    /\ \A g \in SbLocs(Cur) : ObsSb(o, g) = <<Cur>>
                    /\ \A g \in GdLocs(Cur) : ObsGd(o, g) = <<prim.gd>>
                    /\ \A mk \in MgLocs(Cur) : ObsMg(o, mk) = <<prim.gd[mk[1] + 1]>>
Success == /\ L.rc \in {0, 1} /\ L.fn = 0 /\ L.tree_post = L.tree_pre /\ L.parsed = 1 /\ ObsAllCurrent(L.obs)
\* e2fsck -fy -b <first block of group g> -B <bs> after the primary was zeroed
TRecover == /\ IsEvent("recover") /\ Alive /\ last # "env"
            /\ L.g \in SbLocs(Cur)                                   \* the harness asks only for prescribed locations
            /\ L.geo = geo /\ L.blk * Kb(geo.bs) = GroupAt(geo.bs, geo.bpg, geo.first, L.g)     \* -b <first block of the group> -B <bs>
            /\ (Restores(L.g) => Success)
            /\ UNCHANGED vars
\* plain e2fsck -fy after the primary was zeroed ("Superblock invalid, trying backup blocks..."): get_backup_sb runs
\* without a superblock -- every block size, guessed group size (Backups!Search with known = FALSE; the copies are where
\* the model's state has them, the experiment runs on a copy).  The property obliges plain e2fsck when the group size
\* is the default: whenever a copy the search can end with restores the primary, the recovery must succeed.
TPlain == /\ IsEvent("plain") /\ Alive /\ last # "env" /\ L.geo = geo
          /\ (PlainObliged(Cur) /\ \E g \in Search(Cur, FALSE) : Restores(g)) => Success
          /\ UNCHANGED vars
\* plain e2fsck -fy after only the primary descriptor blocks were zeroed ("Group descriptors look bad... trying backup
\* blocks..."): get_backup_sb with the block and group size of the primary superblock
TPlainGd == /\ IsEvent("plaingd") /\ Alive /\ last # "env" /\ L.geo = geo
            /\ (PlainObliged(Cur) /\ \E g \in Search(Cur, TRUE) : Restores(g)) => Success
            /\ UNCHANGED vars
TraceInit == Blank /\ l = 1
TraceNext == TMkfs \/ TResize \/ TResize64 \/ TTuneFeat \/ TTuneUUID \/ TTuneISize \/ TEnv \/ TEnvData \/ TEnvBackup \/ TFsck \/ TRecover \/ TPlain \/ TPlainGd
TraceSpec == TraceInit /\ [][TraceNext]_tvars
TraceAccepted == TLCGet("stats").diameter - 1 = Len(Tr)
=============================================================================
