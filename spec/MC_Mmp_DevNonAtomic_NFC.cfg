\* expected counterexample: NoFalseClean (stop decides on a read that is stale when it writes)
SPECIFICATION Spec
CONSTANTS
  Nodes = {1, 2}
  Seqs = {1, 2}
  KindSet = {"rw", "rwd", "fsck", "ro", "fsckn", "skip", "peek", "clear"}
  RwPolls = {0, 1}
  FsckPolls = {0, 1}
  MinIval = 1
  Upd = 3
  IvalSet = {1}
  TickSet = {1}
  MaxCrash = 1
  AllowCorrupt = TRUE
  DevNonAtomic = TRUE
  DevSeqCollision = FALSE
  DevSameNodename = FALSE
  DevStopUnconditional = FALSE
  DevNoSecondWait = FALSE
  DevNoFsckMarker = FALSE
  DevDumpClobbers = FALSE
INVARIANT NoFalseClean
CHECK_DEADLOCK FALSE
