---------------------------- MODULE ContRefcount ----------------------------
(* e2fsck/ea_refcount.c: a sorted array  key -> count  with lazy compaction,
   refining a counter map (ContAbs).

   rcList    the first `count' elements of refcount->list as <<ea_key, ea_value>>
             (Len(rcList) = refcount->count; elements with value 0 are garbage
             that refcount_collapse removes when the table is full)
   rcSize    refcount->size    (allocated elements)
   rcCursor  refcount->cursor  (0-based)
   rcRef     the counter map the array stands for
   rcRes     [op, impl, ref]   result of the transcription / of the counter map

   Every operator transcribes one C function; C indices are 0-based, sequence
   positions are index + 1.  The initial size (500) and the growth step (100) are
   constants so that "table full + compaction removed entries + insert in the
   middle" is reached with two or three elements.

   DevRcNoRetry switches off the second look-up after a compaction
   (`goto retry' in get_refcount_el): the new element is then inserted at the
   index computed for the uncompacted array.  The registered configuration has
   it FALSE; MC_ContRefcount_noretry.cfg shows that Refines fails without it.  *)
EXTENDS ContAbs
CONSTANTS RcInitSize,     \* ea_refcount_create(0, ..): 500
          RcGrow,         \* insert_refcount_el(): size + 100
          RcMaxKey,       \* keys are 1..RcMaxKey (0 is the end marker of ea_refcount_intr_next)
          RcMaxVal,       \* bound on stored values (model checking only)
          DevRcNoRetry
VARIABLES rcList, rcSize, rcCursor, rcRef, rcRes
rcVars == <<rcList, rcSize, rcCursor, rcRef, rcRes>>

RcKeys == 1..RcMaxKey
RcR(o, i, r) == [op |-> o, impl |-> i, ref |-> r]
RcRV(e, v) == <<e, v>>                      \* <<error class, value returned through *ret (or -1)>>

\* ------------------------------------------------------------ refcount_collapse
RcCollapse(x) == SelectSeq(x, LAMBDA e : e[2] # 0)

\* ------------------------------------------------------------ insert_refcount_el(refcount, key, pos)
\* returns [x, size, idx]; idx = 0 is the NULL return ("should never happen": pos beyond count)
RcInsertEl(x, size, key, pos) ==
   LET size1 == IF Len(x) >= size THEN size + RcGrow ELSE size
   IN IF Len(x) - pos < 0 THEN [x |-> x, size |-> size1, idx |-> 0]
      ELSE [x |-> InsertAt0(x, pos, <<key, 0>>), size |-> size1, idx |-> pos + 1]

\* ------------------------------------------------------------ the binary search loop of get_refcount_el
\* literal (it is also run on arrays that a deviation has left unsorted); returns [hit: 0-based index or -1, low]
RECURSIVE RcBsearch(_, _, _, _)
RcBsearch(x, key, low, high) ==
   IF low > high THEN [hit |-> -1, low |-> low]
   ELSE LET mid == (low + high) \div 2 IN
        IF key = x[mid + 1][1] THEN [hit |-> mid, low |-> low]
        ELSE IF key < x[mid + 1][1] THEN RcBsearch(x, key, low, mid - 1)
        ELSE RcBsearch(x, key, mid + 1, high)

\* ------------------------------------------------------------ get_refcount_el(refcount, key, create)
\* returns [x, size, cur, idx]
RECURSIVE RcGetEl(_, _, _, _, _)
RcGetEl(x, size, cur, key, create) ==
   LET n == Len(x) IN
   IF create /\ (n = 0 \/ key > x[n][1]) THEN
      \* append: compaction first when the table is full; the key stays above every remaining key
      LET x1 == IF n >= size THEN RcCollapse(x) ELSE x
          r  == RcInsertEl(x1, size, key, Len(x1))
      IN [x |-> r.x, size |-> r.size, cur |-> cur, idx |-> r.idx]
   ELSE IF n = 0 THEN [x |-> x, size |-> size, cur |-> cur, idx |-> 0]
   ELSE LET c1 == IF cur >= n THEN 0 ELSE cur IN
        IF key = x[c1 + 1][1] THEN [x |-> x, size |-> size, cur |-> c1 + 1, idx |-> c1 + 1]
        ELSE LET b == RcBsearch(x, key, 0, n - 1) IN
             IF b.hit >= 0 THEN [x |-> x, size |-> size, cur |-> b.hit + 1, idx |-> b.hit + 1]
             ELSE IF ~create THEN [x |-> x, size |-> size, cur |-> c1, idx |-> 0]
             ELSE IF n >= size THEN
                     LET x1 == RcCollapse(x) IN
                     IF Len(x1) < size /\ ~DevRcNoRetry
                     THEN RcGetEl(x1, size, c1, key, create)                  \* goto retry
                     ELSE LET r == RcInsertEl(x1, size, key, b.low)
                          IN [x |-> r.x, size |-> r.size, cur |-> c1, idx |-> r.idx]
                  ELSE LET r == RcInsertEl(x, size, key, b.low)
                       IN [x |-> r.x, size |-> r.size, cur |-> c1, idx |-> r.idx]

RcSetVal(x, idx, v) == [x EXCEPT ![idx] = <<x[idx][1], v>>]

\* ------------------------------------------------------------ actions, one per entry point
RcFetch(k) ==
   /\ k \in RcKeys
   /\ LET g == RcGetEl(rcList, rcSize, rcCursor, k, FALSE) IN
      /\ rcList' = g.x /\ rcSize' = g.size /\ rcCursor' = g.cur
      /\ rcRes' = RcR("fetch", RcRV(OK, IF g.idx = 0 THEN 0 ELSE g.x[g.idx][2]), RcRV(OK, CmFetch(rcRef, k)))
   /\ UNCHANGED rcRef

RcIncrement(k) ==
   /\ k \in RcKeys /\ rcRef[k] < RcMaxVal
   /\ LET g == RcGetEl(rcList, rcSize, rcCursor, k, TRUE) IN
      /\ rcSize' = g.size /\ rcCursor' = g.cur
      /\ IF g.idx = 0 THEN rcList' = g.x /\ rcRes' = RcR("increment", RcRV(ENOMEM, -1), RcRV(OK, rcRef[k] + 1))
         ELSE /\ rcList' = RcSetVal(g.x, g.idx, g.x[g.idx][2] + 1)
              /\ rcRes' = RcR("increment", RcRV(OK, g.x[g.idx][2] + 1), RcRV(OK, rcRef[k] + 1))
   /\ rcRef' = CmInc(rcRef, k)

RcDecrement(k) ==
   /\ k \in RcKeys
   /\ LET g == RcGetEl(rcList, rcSize, rcCursor, k, FALSE) IN
      /\ rcSize' = g.size /\ rcCursor' = g.cur
      /\ IF g.idx = 0 \/ (g.idx # 0 /\ g.x[g.idx][2] = 0)
         THEN rcList' = g.x /\ rcRes' = RcR("decrement", RcRV(EINVAL, -1), IF CmDecOk(rcRef, k) THEN RcRV(OK, rcRef[k] - 1) ELSE RcRV(EINVAL, -1))
         ELSE /\ rcList' = RcSetVal(g.x, g.idx, g.x[g.idx][2] - 1)
              /\ rcRes' = RcR("decrement", RcRV(OK, g.x[g.idx][2] - 1), IF CmDecOk(rcRef, k) THEN RcRV(OK, rcRef[k] - 1) ELSE RcRV(EINVAL, -1))
   /\ rcRef' = IF CmDecOk(rcRef, k) THEN CmDec(rcRef, k) ELSE rcRef

RcStore(k, v) ==
   /\ k \in RcKeys /\ v \in 0..RcMaxVal
   /\ LET g == RcGetEl(rcList, rcSize, rcCursor, k, v # 0) IN
      /\ rcSize' = g.size /\ rcCursor' = g.cur
      /\ IF g.idx = 0 THEN rcList' = g.x /\ rcRes' = RcR("store", RcRV(IF v # 0 THEN ENOMEM ELSE OK, -1), RcRV(OK, -1))
         ELSE rcList' = RcSetVal(g.x, g.idx, v) /\ rcRes' = RcR("store", RcRV(OK, -1), RcRV(OK, -1))
   /\ rcRef' = CmStore(rcRef, k, v)

\* ea_refcount_intr_begin + ea_refcount_intr_next until it returns 0 (pass1.c adjust_extattr_refcount: nothing else is
\* called in between): the non-zero elements in array order; the cursor ends at count
RcIterate ==
   /\ rcCursor' = Len(rcList)
   /\ rcRes' = RcR("iterate", SelectSeq(rcList, LAMBDA e : e[2] # 0), CmPairs(rcRef))
   /\ UNCHANGED <<rcList, rcSize, rcRef>>

RcInit == /\ rcList = <<>> /\ rcSize = RcInitSize /\ rcCursor = 0
          /\ rcRef = [k \in RcKeys |-> 0] /\ rcRes = RcR("init", RcRV(OK, -1), RcRV(OK, -1))
RcNext == \/ \E k \in RcKeys : RcFetch(k) \/ RcIncrement(k) \/ RcDecrement(k)
          \/ \E k \in RcKeys : \E v \in 0..RcMaxVal : RcStore(k, v)
          \/ RcIterate
RcSpec == RcInit /\ [][RcNext]_rcVars

\* ------------------------------------------------------------ invariants
RcStructural == /\ Len(rcList) <= rcSize
                /\ KeysStrictlyAscending(rcList)
                /\ SeqRange(rcList) \subseteq (RcKeys \X (0..RcMaxVal))
                /\ rcCursor \in 0..rcSize
RcRefines == PairsOf(rcList) = CmPairs(rcRef)
RcResultsAgree == IF rcRes.op = "iterate" THEN AscendingEnumOf(rcRes.impl, rcRes.ref) ELSE rcRes.impl = rcRes.ref
\* the table grows only when compaction did not help, so it never exceeds the number of distinct keys by more than one step
RcBounded == rcSize <= Greater(RcInitSize, RcMaxKey + RcGrow)
RcView == <<rcList, rcSize, rcCursor>>
=============================================================================
