SPECIFICATION Spec
CONSTANTS
  MaxG = 12
  Dpbs = {4, 8}
  ResizeSet = {1, 2, 3, 10, 18}
  Geos <- OneGeo
  GdOnly = FALSE
  MaxSteps = 2
  DevTuneMasterOnly = FALSE
  DevFsckIgnoresFeatDiff = FALSE
  DevFlushSkipsLast = FALSE
  DevResizeKeepsOldGdt = FALSE
  DevResizeMovesSoleBackup = FALSE
  DevSearchGuesses8xBs = FALSE
  DevBackupSearchIgnoresSs2 = TRUE
INVARIANT TypeOK
INVARIANT InvCurrent
INVARIANT InvBackupSet
INVARIANT Ss2Shape
PROPERTY FsckKeeps
CHECK_DEADLOCK FALSE
