SPECIFICATION TraceSpec
CONSTANTS
  Fds = {0}
  MaxVer = 1000000
  MaxRefused = 1000000
  Signals = {0}
INVARIANT RoUnmodified
INVARIANT ModifiedIffVersion
POSTCONDITION TraceAccepted
CHECK_DEADLOCK FALSE
