---------------------------- MODULE ToolRunUniv ----------------------------
(* C13 -- the part of the universe that comes with auxiliary undo files (round 2).  checks/c13.py and
   gen/c13_images.py take these catalogues from here (Emit_ToolRunUniv writes them as JSON): they do not define them.

   1. ZInvocations   every documented read-only command line of every tool that accepts `-z <undo file>`, with the -z
                     file in each of its states before the run (undo_open() re-opens an existing undo file);
   2. ImageAxes      the journal / orphan state of the image as two crossed axes (the journal superblock's s_errno is
                     the state in which e2fsck wants to write although nothing needs recovery);
   3. UndoRuns       e2undo dry runs: undo log state (boundary catalogue over the file layout
                     header | superblock copy | key block | data blocks | key block | data blocks ...)
                     x relation of the target to the log x dry-run flag set x with / without -z,
                     each with what misc/e2undo.c main() is expected to do with it (Expect, below).

   The property for all of them is ToolRunZ's: no effective write-class step on a descriptor of the TARGET.

   E2undo decision model.  main() is a chain of guards; a dry run (-n) opens the target without IO_FLAG_RW, skips the
   write in the replay loop and must skip the final "force a fsck" step, which re-opens the target read-write:

        final_fsck == ~dry /\ (force \/ csum_error \/ io_error)

   force is set by -f and by an unfinished log; csum_error / io_error are set while loading keys and replaying (only
   under -f: without it the first such error exits).  GuardCoverage demands that the dry-run universe reaches the final
   guard with each of its three disjuncts true -- otherwise a regrouping of that guard would be invisible.          *)
EXTENDS Integers, FiniteSets, Sequences, TLC

\* ------------------------------------------------------------------------------------------------ 1. -z invocations
\* <<tool, form>>: form names a documented read-only command line of the tool (argv in checks/c13.py ZFORM_ARGV)
ZForms == { <<"e2fsck", "n">>, <<"e2fsck", "fn">>, <<"e2fsck", "n_b">>, <<"e2fsck", "n_journal_only">>,
            <<"debugfs", "ro">>, <<"debugfs", "logdump">>, <<"debugfs", "refused">>, <<"debugfs", "journal_refused">>,
            <<"debugfs", "catastrophic">>, <<"debugfs_script", "mixed">>,
            <<"resize2fs", "P">>, <<"resize2fs", "Pf">>,
            <<"tune2fs", "l">>,
            <<"mke2fs", "n">>, <<"mke2fs", "n_ext4">> }
\* tools of the property text WITHOUT a -z option (dumpe2fs, e2image, e2freefrag) have no such form
ZTools == {f[1] : f \in ZForms}
\* state of the file named by -z before the run: undo_open() creates it; re-opens it when it is a finished undo file whose
\* superblock copy MATCHES this filesystem (try_reopen_undo_file rewrites its first blocks at once); refuses the open
\* when it is the undo file of a FOREIGN filesystem (EXT2_ET_UNDO_FILE_WRONG); starts over when it is no undo file
ZFileStates == {"absent", "matching", "foreign", "garbage"}
ZInvocations == {[tool |-> f[1], form |-> f[2], zfile |-> z] : f \in ZForms, z \in ZFileStates}

\* ------------------------------------------------------------------------------------------------ 2. image axes
JournalAxis == {"none", "clean", "errno", "recover", "recover_errno"}   \* none: no journal; errno: jsb s_errno # 0
OrphanAxis  == {"none", "list", "file"}                                 \* s_last_orphan chain / orphan_file in use
AxisOK(j, o) == (o = "file" => j # "none")                              \* orphan_file needs a journal (mke2fs)
ImageAxes == {a \in [j : JournalAxis, o : OrphanAxis] : AxisOK(a.j, a.o)}
\* the states in which a read-only e2fsck has something it would like to write
WantsWrite(a) == a.j \in {"errno", "recover", "recover_errno"} \/ a.o # "none"

\* ------------------------------------------------------------------------------------------------ 3. e2undo dry runs
\* single defects of an undo log (applied to a finished log of > 1 key block), plus the intact and the killed ones
Defects == { "none", "unfinished", "killed_early", "killed_late",
             "trunc_empty", "trunc_hdr", "trunc_1blk", "trunc_2blk", "trunc_keyblock", "trunc_data_first",
             "trunc_keyblock2", "trunc_data_last",
             "hdr_magic", "hdr_csum", "hdr_bs0", "hdr_bs_small", "hdr_incompat", "hdr_numkeys_more", "hdr_fs_offset",
             "key_magic", "key_csum", "key_size_huge", "key_fsblk_far",
             "data_csum_first", "data_csum_last", "sb_copy" }
\* target: the filesystem the log was recorded on, as the recording left it | the same filesystem before the recording
\* (= after a replay: "out of order") | another filesystem
Relations == {"recorded", "reverted", "other_fs"}
RelDefects == {"none", "unfinished", "data_csum_first", "trunc_data_last"}     \* crossed with every relation
DryFlagSets == {"n", "nf", "nv", "nfv"}
Force(fl) == fl \in {"nf", "nfv"}

UndoRuns == {[defect |-> d, rel |-> r, flags |-> fl, z |-> z] :
               d \in Defects, r \in Relations, fl \in DryFlagSets, z \in BOOLEAN} \
            {[defect |-> d, rel |-> r, flags |-> fl, z |-> z] :
               d \in Defects \ RelDefects, r \in Relations \ {"recorded"}, fl \in DryFlagSets, z \in BOOLEAN}

\* ---- what main() does: the stage at which the run ends and, if it gets to the end, the three flags
\* "header": exits before the target is opened; "check_fs": target opened, superblock comparison refused;
\* "keys": exits while loading keys / verifying blocks; "final": reaches the final guard
HdrStops(d, f) == \/ d \in {"trunc_empty", "trunc_hdr", "hdr_magic", "hdr_bs0"}
                  \/ (~f /\ d \in {"hdr_csum", "hdr_bs_small", "hdr_incompat"})
FsStops(d, r, f) == ~f /\ (r # "recorded" \/ d \in {"trunc_1blk", "sb_copy", "hdr_fs_offset"})
KeyStops(d, f) == \/ d = "key_size_huge"
                  \/ (~f /\ d \in {"trunc_2blk", "trunc_keyblock", "trunc_data_first", "trunc_keyblock2", "trunc_data_last",
                                   "hdr_numkeys_more", "key_magic", "key_csum", "data_csum_first", "data_csum_last"})
\* outcomes the model does not decide: a killed recording leaves whatever it leaves; under -f an unreadable FIRST key
\* block makes num_keys = i - 1 wrap (crash / garbage: property C06's business); a forced wrong block size or key
\* count reads keys at the wrong places
Undecided(d, f) == \/ d \in {"killed_early", "killed_late"}
                   \/ (f /\ d \in {"trunc_1blk", "trunc_2blk", "trunc_keyblock", "hdr_bs_small", "hdr_numkeys_more"})
Stage(d, r, f) == IF HdrStops(d, f) THEN "header"
                  ELSE IF FsStops(d, r, f) THEN "check_fs"
                  ELSE IF KeyStops(d, f) THEN "keys"
                  ELSE "final"
IoError(d, f)   == f /\ d \in {"trunc_data_first", "trunc_keyblock2", "trunc_data_last"}
CsumError(d, f) == f /\ d \in {"data_csum_first", "data_csum_last"}
Incomplete(d)   == d = "unfinished"
Expect(u) == LET f == Force(u.flags) st == Stage(u.defect, u.rel, f) IN
             [decided |-> ~Undecided(u.defect, f), stage |-> st,
              opens |-> st # "header",
              io |-> (st = "final" /\ IoError(u.defect, f)), csum |-> (st = "final" /\ CsumError(u.defect, f)),
              incomplete |-> (st = "final" /\ Incomplete(u.defect)),
              code |-> IF st = "final" /\ ~CsumError(u.defect, f) THEN 0 ELSE 1]

\* the final guard of main(), as documented (Dev = the regrouped form is what a dry run must never see)
FinalFsck(dry, force, csum, io) == ~dry /\ (force \/ csum \/ io)
DryNeverFsck == \A u \in UndoRuns : LET e == Expect(u) IN
                   ~FinalFsck(TRUE, Force(u.flags) \/ e.incomplete, e.csum, e.io)
\* every disjunct of the guard is true in some decided dry run that reaches it, each one ALONE where the code allows
\* (csum / io errors survive to the end only under -f)
AtFinal == {u \in UndoRuns : Expect(u).decided /\ Expect(u).stage = "final"}
GuardCoverage == /\ \E u \in AtFinal : Expect(u).io /\ ~Expect(u).csum
                 /\ \E u \in AtFinal : Expect(u).csum /\ ~Expect(u).io
                 /\ \E u \in AtFinal : Force(u.flags) /\ ~Expect(u).io /\ ~Expect(u).csum
                 /\ \E u \in AtFinal : ~Force(u.flags) /\ Expect(u).incomplete
                 /\ \E u \in AtFinal : ~Force(u.flags) /\ ~Expect(u).incomplete
                 /\ \A st \in {"header", "check_fs", "keys", "final"} : \E u \in UndoRuns : Expect(u).decided /\ Expect(u).stage = st
                 /\ \A d \in Defects, fl \in DryFlagSets : \E u \in UndoRuns : u.defect = d /\ u.flags = fl

\* ------------------------------------------------------------------------------------------------ 4. external journal device
(* Round 3.  A filesystem whose journal lives on a device of its own (mke2fs -O journal_dev, attached through
   s_journal_uuid) makes every invocation a run over TWO target devices (ToolRunZ!TargetObjs = {0, 3}).  The catalogue is
   journal flavour x state of the journal device x invocation form; a form says which tool, which documented read-only
   command line, and HOW the journal device is reached:
       "opt"   named by an option of the command line (e2fsck -j <dev>, debugfs logdump -f <dev>, mke2fs -J device=)
       "uuid"  found by the tool through the superblock's s_journal_uuid (libblkid lookup)
       "self"  the journal device IS the device of the command line (tune2fs -l, dumpe2fs, e2image, debugfs ... <dev>)
   The property for all of them: no effective write-class step on a descriptor of EITHER device, both digests unchanged. *)
ExtJProfiles == {"plain", "csum"}       \* journal superblock without / with JBD2 checksum v3 (ext3-like fs / metadata_csum fs)
\* clean: replayed, s_start = 0 | recover: committed transactions + needs_recovery | errno: s_errno # 0 in the journal
\* superblock, nothing to recover (the journal was aborted: a read-write e2fsck moves the error to the filesystem and
\* CLEARS s_errno on the journal device) | recover_errno: both | multi_user: the journal superblock's user list has two
\* filesystems (s_nr_users = 2: shared journal devices are not supported) | dev_uuid: the ext2 superblock of the journal device carries another UUID than s_journal_uuid (reached by
\* option only) | jsb_csum: journal superblock checksum wrong (csum flavour) | jsb_magic: no JBD2 magic
ExtJStates == {"clean", "recover", "errno", "recover_errno", "multi_user", "dev_uuid", "jsb_csum", "jsb_magic"}
ExtJStateOK(p, st) == (st = "jsb_csum" => p = "csum")
ExtJImages == {i \in [profile : ExtJProfiles, jstate : ExtJStates] : ExtJStateOK(i.profile, i.jstate)}
\* states in which a READ-WRITE run would write the journal device (what a read-only run must not do)
ExtJWantsWrite(st) == st \in {"recover", "errno", "recover_errno"}
Reaches == {"opt", "uuid", "self"}
\* <<tool, form, reach>> (argv in checks/c13.py EXTJ_ARGV)
ExtJForms == { <<"e2fsck", "n", "opt">>, <<"e2fsck", "fn", "opt">>, <<"e2fsck", "n_journal_only", "opt">>,
               <<"e2fsck", "fn_z", "opt">>, <<"e2fsck", "n", "uuid">>, <<"e2fsck", "fn", "uuid">>, <<"e2fsck", "n", "self">>,
               <<"debugfs", "logdump_f", "opt">>, <<"debugfs", "logdump_af", "opt">>, <<"debugfs", "logdump_Sf", "opt">>,
               <<"debugfs", "logdump", "uuid">>, <<"debugfs", "logdump_a", "uuid">>, <<"debugfs", "ls", "uuid">>,
               <<"debugfs", "jo_f_refused", "opt">>, <<"debugfs", "jr_refused", "uuid">>, <<"debugfs", "jo_refused", "uuid">>,
               <<"debugfs", "logdump_f_nofs", "self">>, <<"debugfs", "stats", "self">>, <<"debugfs", "c_logdump", "uuid">>,
               <<"debugfs_script", "journal", "uuid">>, <<"debugfs_script", "journal_f", "opt">>,
               <<"dumpe2fs", "plain", "self">>, <<"dumpe2fs", "h", "self">>, <<"dumpe2fs", "plain", "uuid">>,
               <<"tune2fs", "l", "self">>, <<"tune2fs", "l", "uuid">>,
               <<"e2image", "normal", "self">>, <<"e2image", "r", "self">>, <<"e2image", "normal", "uuid">>, <<"e2image", "r", "uuid">>,
               <<"resize2fs", "P", "uuid">>, <<"e2freefrag", "plain", "uuid">>, <<"e2freefrag", "plain", "self">>,
               <<"mke2fs", "n_journal_dev", "self">>, <<"mke2fs", "n_J_device", "opt">> }
\* writing control runs (class "rw"): the recorder must SEE the journal device written in the states that want it
ExtJControls == { <<"e2fsck", "fy", "opt">>, <<"e2fsck", "p", "opt">> }
ExtJRuns == {[profile |-> i.profile, jstate |-> i.jstate, tool |-> f[1], form |-> f[2], reach |-> f[3], class |-> "ro"] :
                i \in ExtJImages, f \in ExtJForms}
            \cup {[profile |-> i.profile, jstate |-> i.jstate, tool |-> f[1], form |-> f[2], reach |-> f[3], class |-> "rw"] :
                i \in {x \in ExtJImages : ExtJWantsWrite(x.jstate)}, f \in ExtJControls}
\* every tool of the property text that can be pointed at a filesystem has a form here (e2undo's target relation is the
\* catalogue of section 3); e2fsck reaches the journal device both ways; every reach is used; the state the tools most
\* want to write in (s_errno alone) is a state of both flavours
ExtJTools == {"e2fsck", "debugfs", "debugfs_script", "dumpe2fs", "tune2fs", "resize2fs", "e2image", "e2freefrag", "mke2fs"}
ASSUME {f[1] : f \in ExtJForms} = ExtJTools
ASSUME \A r \in Reaches : \E f \in ExtJForms : f[3] = r
ASSUME \A r \in {"opt", "uuid"}, fo \in {"n", "fn"} : <<"e2fsck", fo, r>> \in ExtJForms
ASSUME \A p \in ExtJProfiles : [profile |-> p, jstate |-> "errno"] \in ExtJImages
ASSUME \A f \in ExtJForms : f[3] \in Reaches
ASSUME \E u \in ExtJRuns : u.class = "rw" /\ u.jstate = "errno"

ASSUME DryNeverFsck
ASSUME GuardCoverage
ASSUME \A a \in ImageAxes : AxisOK(a.j, a.o)
ASSUME \E a \in ImageAxes : a.j = "errno" /\ a.o = "none"
=============================================================================
