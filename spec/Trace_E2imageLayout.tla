------------------------- MODULE Trace_E2imageLayout -------------------------
(* C19 conformance, second binding: the literal qcow2 writer and reader of E2image.tla (Part 2) and its raw writer are run
   by TLC with the REAL constants of one observed filesystem (NB = blocks of the filesystem, L2N = cluster_size / 8, RPB =
   cluster_size / 2, CacheN = min(l1_size, 512), CBits = log2(cluster_size)) on the set of blocks the real e2image -Q
   mapped, one state per MAPPED block (the blocks in between do not change the writer's state), and the three files the
   model builds must be the three files the real tool wrote:
     the qcow2 file      same data cluster for every block, same L2 table offsets in the L1 table, same refcount blocks in
                         the refcount table, same file size                                              (LayoutMatches)
     the direct raw file the non-zero blocks of `e2image -r` are exactly the writes of RawFile: block b at position
                         Shl(b, WRawPos), holding the bytes of source block Shl(b, WSrcPos)               (RawMatches)
     the converted file  the non-zero blocks of `e2image -r <qcow2>` are exactly the writes of ConvFile: the cluster of
                         (l1_index, l2_index) at position Shl(l1_index * L2N + l2_index, WOffOut)         (ConvMatches)
   All invariants of the model (no cluster written twice, data where it was recorded, refcounts exact, conversion equals
   raw) are evaluated on every state of that run.

   The trace is one JSON line:
     map   sequence of <<b, c>>, ascending in b: block b is mapped to file cluster c
     l1    l1[i + 1] = cluster of the L2 table of L1 slot i (0 = none);  rt[i + 1] = cluster of refcount block i
     file_clusters, cbits
     raw / conv   sequences of <<p, id>>: block position p of the file is not all zero and holds the bytes of source block
                  id - 1 (the harness looks the bytes up in the source: position p itself first, then any other block;
                  id = -1: bytes that are no block of the source);  raw_blocks / conv_blocks = file size / block size
                  (-1 when the size is not a multiple of the block size)
     srcnz        (wide_* filesystems) the blocks of the SOURCE that are not all zero, ascending: [b, c] = block and its class
                  according to the independent reader;  hole = length in blocks of the hole the catalogue asks for (0: none)
   Model assumption (checked by the harness before a line is written): the refcount table takes one cluster.          *)
EXTENDS E2image, Json, IOUtils
Tr == ndJsonDeserialize(IOEnv.TRACE)[1]
MapSeq == Tr.map
NMap == Len(MapSeq)
NZ == {MapSeq[k][1] : k \in 1 .. NMap}
\* substituted by the cfg: bound of the model file for this run (WriterSane checks the writer stays inside), real cluster bits
ObsMaxC == Tr.file_clusters + 8
ObsCBits == Tr.cbits

\* the model's variables: src is kept on the mapped blocks only, raw / conv are the sparse files (position -> content),
\* nb is the index into MapSeq
LInit == /\ phase = "raw"
         /\ cls = <<>>
         /\ src = [b \in NZ |-> 1]
         /\ all = FALSE
         /\ marked = NZ
         /\ raw = RawFile(NZ)
         /\ q = QState0 /\ nb = 0 /\ conv = <<>>
LStart == /\ phase = "raw" /\ phase' = "qblk"
          /\ q' = QPrologue /\ nb' = 1
          /\ UNCHANGED <<cls, src, all, marked, raw, conv>>
LBlock == /\ phase = "qblk" /\ nb <= NMap
          /\ LET b == MapSeq[nb][1] IN q' = QBlockStep(q, b, Read(b))
          /\ nb' = nb + 1
          /\ UNCHANGED <<phase, cls, src, all, marked, raw, conv>>
LFinish == /\ phase = "qblk" /\ nb = NMap + 1 /\ phase' = "conv"
           /\ q' = QEpilogue(q)
           /\ UNCHANGED <<cls, src, all, marked, raw, nb, conv>>
LConvert == /\ phase = "conv" /\ phase' = "done"
            /\ conv' = ConvFile(q.file)
            /\ UNCHANGED <<cls, src, all, marked, raw, q, nb>>
LNext == LStart \/ LBlock \/ LFinish \/ LConvert
LSpec == LInit /\ [][LNext]_vars

\* ---- the model's own contract on this run (MapExact / ConvertEqualsRaw of E2image.tla, restated on the sparse files)
LMapExact ==
    Finished => /\ \A b \in NZ : LET m == Lookup(q.file, b) IN m > 0 /\ q.file[m].t = "data" /\ q.file[m].v = b + 1 /\ q.file[m].d = <<b>>
                /\ \A i \in {k \in 0 .. L1N - 1 : q.file[L1Off].d[k] # 0} :
                      LET t == q.file[q.file[L1Off].d[i]] IN
                      t.t = "l2" /\ {i * L2N + j : j \in {x \in 0 .. L2N - 1 : t.d[x] # 0}} = {b \in NZ : b \div L2N = i}
LConvertEqualsRaw == phase = "done" => conv = raw

\* ---- the real files
Pairs(F)    == {<<p, F[p]>> : p \in DOMAIN F}
ObsPairs(s) == {<<s[k][1], s[k][2]>> : k \in 1 .. Len(s)}
LayoutMatches ==
    Finished => /\ Len(Tr.l1) = L1N /\ Len(Tr.rt) <= Cardinality(DOMAIN q.file[RtOff].d)   \* (keeps the comparison total)
                /\ \A k \in 1 .. NMap : Lookup(q.file, MapSeq[k][1]) = MapSeq[k][2]
                /\ \A i \in 0 .. L1N - 1 : q.file[L1Off].d[i] = Tr.l1[i + 1]
                /\ \A i \in 1 .. Len(Tr.rt) : q.file[RtOff].d[i - 1] = Tr.rt[i]
                /\ \A i \in DOMAIN q.file[RtOff].d : i >= Len(Tr.rt) => q.file[RtOff].d[i] = 0
                /\ FileSize(q.file) = Tr.file_clusters
RawMatches  == Pairs(raw) = ObsPairs(Tr.raw) /\ Tr.raw_blocks = NB
ConvMatches == phase = "done" => Pairs(conv) = ObsPairs(Tr.conv) /\ Tr.conv_blocks = NB
\* the universe realises the boundary catalogue (only listed in the cfg of the wide_* filesystems; a failure means the generator
\* did not build what the catalogue asks for: the check is broken, nothing is said about e2image).  Both speak about the SOURCE:
\* every target block of the integer-width boundaries is non-zero metadata ...
Covers == /\ NB > 2 ^ (32 - CBits)
          /\ \A t \in WidthTargets(CBits) \cap {Tr.targets[k] : k \in 1 .. Len(Tr.targets)} :
                \E k \in 1 .. Len(Tr.srcnz) : Tr.srcnz[k].b = t /\ Tr.srcnz[k].c \in MetaLive
          /\ Len(Tr.targets) > 0 /\ \A k \in 1 .. Len(Tr.targets) : Tr.targets[k] \in WidthTargets(CBits)
\* ... and two consecutive blocks a metadata image must hold are at least Tr.hole blocks apart
ImgIdx == {k \in 1 .. Len(Tr.srcnz) : Marks(Tr.srcnz[k].c, FALSE)}
CoversHole == Tr.hole > 0 => /\ Tr.hole >= HoleMin(CBits)
                             /\ \E i, j \in ImgIdx : /\ i < j /\ ~\E m \in ImgIdx : i < m /\ m < j
                                                     /\ Tr.srcnz[j].b - Tr.srcnz[i].b - 1 >= Tr.hole
\* the run must reach the end (a shorter run means the model got stuck: check broken, not a violation)
LayoutDone == TLCGet("stats").diameter = NMap + 4
=============================================================================
