------------------------- MODULE Trace_E2imageLayout -------------------------
(* C19 conformance, second binding: the literal qcow2 writer of E2image.tla (Part 2) is run by TLC with the REAL constants
   of one observed image (NB = blocks of the filesystem, L2N = cluster_size / 8, RPB = cluster_size / 2, CacheN =
   min(l1_size, 512)) on the set of blocks the real e2image -Q mapped, one state per block of the filesystem, and the
   file it builds must be the file the real tool wrote: same data cluster for every block, same L2 table offsets in the
   L1 table, same refcount blocks in the refcount table, same file size.  All invariants of the model (no cluster written
   twice, data where it was recorded, refcounts exact, conversion equals raw) are evaluated on every state of that run.

   The trace is one JSON line: map[b + 1] = file cluster of block b (0 = unmapped), l1[i + 1] = cluster of the L2 table of
   L1 slot i (0 = none), rt[i + 1] = cluster of refcount block i, file_clusters = size of the file in clusters.
   Model assumption (checked by the harness before a line is written): the L1 table and the refcount table take one
   cluster each.                                                                                                      *)
EXTENDS E2image, Json, IOUtils
Tr == ndJsonDeserialize(IOEnv.TRACE)[1]
NZ == {b \in Blocks : Tr.map[b + 1] # 0}
\* bound of the model file for this run (the cfg substitutes it for MaxC; WriterSane checks the writer stays inside)
ObsMaxC == Tr.file_clusters + 8

LInit == /\ phase = "raw"
         /\ cls = [b \in Blocks |-> "dirdata"]
         /\ src = [b \in Blocks |-> IF b \in NZ THEN 1 ELSE 0]
         /\ all = FALSE
         /\ marked = NZ
         /\ raw = [b \in Blocks |-> IF b \in NZ THEN b + 1 ELSE 0]
         /\ q = QState0 /\ nb = 0 /\ conv = <<>>
LNext == QInit \/ QBlock \/ QFinish \/ ConvertBack
LSpec == LInit /\ [][LNext]_vars

LayoutMatches ==
    Finished => /\ Len(Tr.map) = NB /\ Len(Tr.l1) = L1N /\ Len(Tr.rt) <= Cardinality(DOMAIN q.file[RtOff].d)   \* (keeps the comparison total)
                /\ \A b \in Blocks : Lookup(q.file, b) = Tr.map[b + 1]
                /\ \A i \in 0 .. L1N - 1 : q.file[L1Off].d[i] = Tr.l1[i + 1]
                /\ \A i \in 1 .. Len(Tr.rt) : q.file[RtOff].d[i - 1] = Tr.rt[i]
                /\ \A i \in DOMAIN q.file[RtOff].d : i >= Len(Tr.rt) => q.file[RtOff].d[i] = 0
                /\ FileSize(q.file) = Tr.file_clusters
\* the run must reach the end (a shorter run means the model got stuck: check broken, not a violation)
LayoutDone == TLCGet("stats").diameter = NB + 4
=============================================================================
