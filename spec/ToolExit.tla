------------------------------ MODULE ToolExit ------------------------------
(* C06 -- the tool-run CONTRACT on arbitrary input: what of "no memory-safety violation, crash or hang on arbitrary
   input; documented exit status" a specification can state.

   ToolRun (C13's module, extended here, not edited) is the protocol of one invocation of an e2fsprogs tool over a
   device.  This module adds what C06 observes about the END of a run and the per-tool table of documented statuses:

     mode     the argv class of the run (which documented command line of the tool)
     tmo      the harness had to kill the run: it did not terminate within the bound (20 s for an image <= 32 MiB)
     caught   a fatal signal that the tool's own handler intercepted (e2fsck installs sigcatcher.c for SIGSEGV, SIGBUS,
              SIGFPE, SIGILL, SIGABRT: it prints "Signal (n) ..." and exits 8 -- the wait status then shows no signal)
     sanend   the sanitizer runtime ENDED the run (ASan stops at its first report; UBSan reports are recoverable in the
              flavour this check builds, the run goes on after them)
     san      the set of sanitizer report kinds the run produced (ASan + UBSan build = observation amplifier: an
              out-of-bounds access that happens not to fault becomes a report; the sanitizer is NOT part of the model,
              its reports are observations like the exit status)

   The contract (invariant Robust, clause by clause):
     TerminatedWithinBound   ~tmo
     NoSignal                the run neither died from a signal nor intercepted a fatal one
     NoMemoryError           no report of a kind the property names (out-of-bounds access, use-after-free, double free,
                             stack overflow, fatal-signal-in-waiting such as a division by zero or a null dereference)
     NoUndefinedBehaviour    no other sanitizer report (shift, signed overflow, misaligned access, ...): these are not in
                             the property's list; the instrumented run logs them and goes on (recoverable), they are
                             judged separately, under their own clause name (the check reports them per kind)
     ExitDocumented6         a run that exits by itself does so with a status documented for its tool AND mode

   The memory-safety clause itself (that no out-of-bounds access HAPPENS) is outside what TLA+ observes (DESIGN section 6);
   the specification judges what was observed about each run.                                                        *)
EXTENDS ToolRun, Sequences

VARIABLES mode, tmo, caught, san, sanend
vars6 == <<vars, mode, tmo, caught, san, sanend>>

-----------------------------------------------------------------------------
(* argv classes per tool.  e2fsck: -n / -p / -y (the three modes the property names); debugfs: one read-only request
   (-R) or a script of at most MaxScript read-only requests (-f), each also in catastrophic mode (-c); the others have
   one documented read-only command line each, e2image several output formats, e2undo a dry-run and a real one.     *)
ModesOf(t) == CASE t = "e2fsck"         -> {"n", "p", "y"}
                [] t = "debugfs"        -> {"R", "cR"}
                [] t = "debugfs_script" -> {"f", "cf"}
                [] t = "dumpe2fs"       -> {"dump"}
                [] t = "tune2fs"        -> {"l"}
                [] t = "resize2fs"      -> {"P"}
                [] t = "e2image"        -> {"img", "raw", "qcow", "conv"}      \* conv: qcow2 image as INPUT (-r of a .qcow2)
                [] t = "e2freefrag"     -> {"frag"}
                [] t = "e2undo"         -> {"undo_n", "undo"}
                [] OTHER                -> {}
Tools6 == {t \in ToolNames : ModesOf(t) # {}}
AllModes == UNION {ModesOf(t) : t \in ToolNames}
ClassOf(t, m) == IF (t = "e2fsck" /\ m \in {"p", "y"}) \/ (t = "e2undo" /\ m = "undo") THEN "rw" ELSE "ro"

(* Documented exit statuses.
   e2fsck(8), EXIT CODE: "the sum of the following conditions: 0 no errors, 1 file system errors corrected, 2 corrected,
   system should be rebooted, 4 errors left uncorrected, 8 operational error, 16 usage or syntax error, 32 canceled by
   user request, 128 shared-library error".  The runs of this check use valid command lines, send no signal and load no
   shared library: 16, 32 and 128 are not the documented status of anything that happens in them; bit 64 is documented
   for nothing.  With -n the file system is opened read-only: "corrected" (1, 2) cannot be the truth.
   dumpe2fs(8), EXIT CODE: 0 without errors, "a non-zero return code if there are any errors".
   debugfs, tune2fs, resize2fs, e2image, e2undo, e2freefrag have no EXIT section: the table transcribes their usage() and
   exit() calls: 0 success, 1 failure; debugfs -f exits with the number of failed requests of the script.            *)
FsckSum(bits)   == {c \in 0..255 : \A b \in {1, 2, 4, 8, 16, 32, 64, 128} : HasBit(c, b) => b \in bits}
DocExit6(t, m)  == CASE t = "e2fsck"         -> IF m = "n" THEN FsckSum({4, 8}) ELSE FsckSum({1, 2, 4, 8})
                     [] t = "debugfs_script" -> 0..MaxScript
                     [] t = "dumpe2fs"       -> 0..255
                     [] OTHER                -> {0, 1}

(* Sanitizer report kinds.  Memory: what the property text lists (ASan's report names; UBSan's "bounds" = index out of
   bounds; the deadly ones: SEGV / BUS / FPE / ILL / ABRT seen by the sanitizer's own handler, integer division by zero
   and null dereference, which are fatal signals in an uninstrumented run).  Everything else is "undefined".         *)
MemKinds == {"heap-buffer-overflow", "stack-buffer-overflow", "global-buffer-overflow", "dynamic-stack-buffer-overflow",
             "stack-buffer-underflow", "container-overflow", "intra-object-overflow", "use-after-poison",
             "heap-use-after-free", "stack-use-after-return", "stack-use-after-scope", "double-free", "bad-free",
             "alloc-dealloc-mismatch", "stack-overflow", "negative-size-param", "memcpy-param-overlap",
             "strcpy-param-overlap", "allocation-size-too-big", "calloc-overflow", "out-of-memory", "unknown-crash",
             "SEGV", "BUS", "FPE", "ILL", "ABRT", "bounds", "object-size", "integer-divide-by-zero", "null"}
IsMem(k) == k \in MemKinds

-----------------------------------------------------------------------------
Init6 == /\ Init
         /\ tool \in Tools6 /\ mode \in ModesOf(tool) /\ class = ClassOf(tool, mode)
         /\ tmo = FALSE /\ caught = 0 /\ san = {} /\ sanend = FALSE

Same6 == UNCHANGED <<mode, tmo, caught, san, sanend>>

\* the tool as documented: the protocol steps of ToolRun, ending by itself with a documented status
Exit6(c) == c \in DocExit6(tool, mode) /\ ExitAny(c)
Next6 == /\ \/ \E fd \in Fds, m \in Modes, t \in BOOLEAN : Open(fd, m, t)
            \/ \E fd \in Fds : \/ DevWrite(fd, 0, 0) \/ DevTruncate(fd, 0) \/ DevFallocate(fd, 0, 0, 0)
                               \/ DevWriteRefused(fd) \/ DevFsync(fd) \/ Close(fd)
            \/ \E c \in DocExit6(tool, mode) : Exit6(c)
         /\ Same6
Spec6 == Init6 /\ [][Next6]_vars6

\* what can be OBSERVED at the end of a run of the real code (trace validation takes exactly one of these steps per run):
\*   c exit status or -1, s terminating signal or 0, cs intercepted signal or 0, t timed out, ks report kinds,
\*   se the sanitizer runtime ended the run
ObservedEnd(c, s, cs, t, ks, se) ==
    /\ Alive /\ cs \in Nat /\ t \in BOOLEAN /\ se \in BOOLEAN /\ (se => ks # {})
    /\ san' = ks /\ caught' = cs /\ tmo' = t /\ mode' = mode /\ sanend' = se
    /\ IF t \/ s # 0 THEN KilledAny(IF s # 0 THEN s ELSE 9)       \* the harness kills with SIGKILL on timeout
                     ELSE ExitAny(c)

\* the faults, as separately named environment steps (negative control: with these enabled every clause must FAIL)
FaultSignal(s)    == ObservedEnd(-1, s, 0, FALSE, {}, FALSE)
FaultCaught(s)    == ObservedEnd(8, 0, s, FALSE, {}, FALSE)
FaultHang         == ObservedEnd(-1, 0, 0, TRUE, {}, FALSE)
FaultSan(k)       == ObservedEnd(-1, 6, 0, FALSE, {k}, TRUE)          \* a report that ends the run (ASan)
FaultUb(k)        == ObservedEnd(0, 0, 0, FALSE, {k}, FALSE)          \* a recoverable report, the run goes on and exits 0
FaultExit(c)      == c \notin DocExit6(tool, mode) /\ ObservedEnd(c, 0, 0, FALSE, {}, FALSE)
FaultNext == \/ Next6
             \/ \E s \in Signals : FaultSignal(s) \/ FaultCaught(s)
             \/ FaultHang
             \/ \E k \in {"heap-buffer-overflow", "SEGV"} : FaultSan(k)
             \/ \E k \in {"shift-exponent", "alignment"} : FaultUb(k)
             \/ \E c \in {2, 3, 16, 64, 99} : FaultExit(c)
FaultSpec == Init6 /\ [][FaultNext]_vars6

-----------------------------------------------------------------------------
Ended6 == pc \in {"exited", "killed"}
TypeOK6 == /\ TypeOK /\ tool \in Tools6 /\ mode \in ModesOf(tool) /\ class = ClassOf(tool, mode)
           /\ tmo \in BOOLEAN /\ caught \in Nat
           /\ sanend \in BOOLEAN /\ (sanend => san # {})
           /\ (~Ended6 => (~tmo /\ caught = 0 /\ san = {} /\ ~sanend))

TerminatedWithinBound == ~tmo
\* A run that the sanitizer runtime ended (sanend) is judged by its report kinds: the SIGABRT / exit status it ends with
\* are artefacts of the instrumentation.  The harness' own SIGKILL after the bound is the hang, not a crash.
NoSignal              == tmo \/ sanend \/ (sig = 0 /\ caught = 0)
NoMemoryError         == \A k \in san : ~IsMem(k)
NoUndefinedBehaviour  == \A k \in san : IsMem(k)
ExitDocumented6       == (pc = "exited" /\ ~sanend) => code \in DocExit6(tool, mode)
Robust == /\ TerminatedWithinBound /\ NoSignal /\ NoMemoryError /\ NoUndefinedBehaviour /\ ExitDocumented6
\* names of the clauses that fail in the current state (what the trace validator prints for a rejected run)
Failed == {n \in {"TerminatedWithinBound", "NoSignal", "NoMemoryError", "NoUndefinedBehaviour", "ExitDocumented"} :
             \/ n = "TerminatedWithinBound" /\ ~TerminatedWithinBound
             \/ n = "NoSignal" /\ ~NoSignal
             \/ n = "NoMemoryError" /\ ~NoMemoryError
             \/ n = "NoUndefinedBehaviour" /\ ~NoUndefinedBehaviour
             \/ n = "ExitDocumented" /\ ~ExitDocumented6}

\* the table: refines C13's, success is documented everywhere, -n never claims a repair, no mode documents 16/32/64/128
\* (dumpe2fs returns the low byte of a library error code and debugfs -f a count: any value there)
TableSane6 == /\ \A t \in Tools6 : \A m \in ModesOf(t) :
                    /\ 0 \in DocExit6(t, m)
                    /\ DocExit6(t, m) \subseteq DocExit(t, ClassOf(t, m))
              /\ DocExit6("e2fsck", "n") = {0, 4, 8, 12}
              /\ DocExit6("e2fsck", "y") = 0..15 /\ DocExit6("e2fsck", "p") = 0..15
              /\ \A t \in Tools6 \ {"dumpe2fs", "debugfs_script"} : \A m \in ModesOf(t) : DocExit6(t, m) \cap {16, 32, 64, 128} = {}
=============================================================================
