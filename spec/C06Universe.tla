----------------------------- MODULE C06Universe -----------------------------
(* C06 -- the abstract catalogue of STRUCTURED corruptions (the closed universe the check samples from).

   An element is  <<object class, field index, value class, checksum repaired>>.  The object classes are the metadata
   object classes of the property's input kinds (file system image, journal, undo file, qcow2 image); the number of
   fields per class is the size of the field table of the concretiser (gen/c06_inputs.py FIELDS, offsets and widths
   taken from lib/ext2fs/ext2_fs.h, kernel-jbd.h, misc/e2undo.c, lib/ext2fs/qcow2.h).  TLC enumerates the catalogue,
   checks its shape (CatalogueOK) and prints the per-class sizes; checks/c06.py refuses to run (check broken) when the
   concretiser's tables disagree with what TLC printed -- a field or value class cannot silently drop out of the universe.
   Which OBJECTS of an image are damaged (which inodes, which directory blocks) is decided by the concretiser from the
   independent reader's location map and stated in the evidence.

   The value classes below do not depend on the file.  Values that depend on OTHER fields of the same file -- a key's
   size against the bounds e2undo derives from the header's block sizes, a qcow2 table against the end of the file,
   free counts against their totals -- and the multi-field elements built from them (checksums recomputed), as well as
   the degenerate journal rings, are the second part of the structured universe: spec/C06Readers.tla.                *)
EXTENDS Integers, FiniteSets, TLC

\* input kind -> object classes
KindClasses == [fs    |-> {"sb", "sb_backup", "gd", "inode", "extblk", "xblk", "dirblk", "indblk", "bb", "ib", "orphanblk", "mmp", "jsb"},
                jrn   |-> {"jsb", "jblk", "jrev", "jdesc", "jcommit"},
                undo  |-> {"undo_hdr", "undo_key"},
                qcow  |-> {"qcow_hdr", "qcow_l1", "qcow_l2", "qcow_rt", "qcow_rb"}]
Kinds      == DOMAIN KindClasses
ObjClasses == UNION {KindClasses[k] : k \in Kinds}

FieldCount == [c \in ObjClasses |->
    CASE c \in {"sb", "sb_backup"} -> 45 [] c = "gd" -> 14 [] c = "inode" -> 27 [] c = "extblk" -> 9 [] c = "xblk" -> 10
      [] c = "dirblk" -> 21 [] c \in {"indblk", "bb", "ib"} -> 3 [] c = "orphanblk" -> 4 [] c = "mmp" -> 5 [] c = "jsb" -> 17
      [] c = "jblk" -> 9 [] c = "jrev" -> 5 [] c \in {"jdesc", "jcommit"} -> 8 [] c = "undo_hdr" -> 13 [] c = "undo_key" -> 8
      [] c = "qcow_hdr" -> 13 [] c \in {"qcow_l1", "qcow_l2", "qcow_rt"} -> 3 [] c = "qcow_rb" -> 2]

\* value classes, grouped as the quick sampler rotates over them
Small  == {"zero", "one", "inc", "dec", "half", "flip_lo", "dbl"}
Large  == {"ones", "msb", "max_signed", "flip_hi"}
Random == {"rnd_a", "rnd_b"}
ValueClasses == Small \cup Large \cup Random

\* classes whose checksum the concretiser can recompute (so that the damage reaches the code behind the checksum test)
Repairable == {"sb", "gd", "inode", "undo_hdr", "undo_key"}

Catalogue == {<<c, f, v, r>> \in ObjClasses \X (1..45) \X ValueClasses \X {0, 1} :
                 f <= FieldCount[c] /\ (r = 1 => c \in Repairable)}
SizeOf(c) == Cardinality({e \in Catalogue : e[1] = c})

CatalogueOK == /\ \A c \in ObjClasses : FieldCount[c] >= 2
               /\ Small \cap Large = {} /\ Small \cap Random = {} /\ Large \cap Random = {}
               /\ Cardinality(ValueClasses) = 13
               /\ \A c \in ObjClasses : SizeOf(c) = FieldCount[c] * 13 * (IF c \in Repairable THEN 2 ELSE 1)
               /\ \A k \in Kinds : KindClasses[k] # {}
ASSUME CatalogueOK
ASSUME PrintT(<<"FIELDS", [c \in ObjClasses |-> FieldCount[c]]>>)
ASSUME PrintT(<<"VALUES", ValueClasses>>)
ASSUME PrintT(<<"REPAIRABLE", Repairable>>)
ASSUME PrintT(<<"CATALOGUE", Cardinality(Catalogue)>>)

VARIABLE x
Init == x = 0
Next == UNCHANGED x
=============================================================================
