----------------------------- MODULE MC_DirBlock -----------------------------
(* Model checking of DirBlock: every sequence of insertions and removals of the names 1..N (name n has length NLen[n]) in one
   linear directory, true arithmetic; the model is the set of names present.                                             *)
EXTENDS DirBlock
CONSTANTS N, NLen, G, Inline, MaxBlocks
VARIABLES d, inl, present
vars == <<d, inl, present>>
Init == d = NewDir(50, 2, 2, G, Inline) /\ inl = Inline /\ present = {}
Ins(n) == /\ n \notin present
          /\ LET r == LinkExpand(d, inl, Slot(100 + n, NLen[n], 0, 1, n), G, 50, 2, 2) IN
             /\ r.done /\ d' = r.d /\ inl' = r.inl /\ Len(r.d) <= MaxBlocks
          /\ present' = present \cup {n}
Del(n) == n \in present /\ d' = UnlinkDir(d, 1, n) /\ present' = present \ {n} /\ UNCHANGED inl
Next == \E n \in 1..N : Ins(n) \/ Del(n)
Spec == Init /\ [][Next]_vars
InvChain == RecLenChainCoversBlock(d, G, inl)
InvLive == LiveSlots(d) = {<<n, 100 + n, 1>> : n \in present} /\ LiveCount(d) = Cardinality(present)
\* after the retry an insertion always succeeds (checked as: Ins(n) is enabled for every absent name while blocks remain)
InvInsertable == \A n \in (1..N) \ present : LinkExpand(d, inl, Slot(100 + n, NLen[n], 0, 1, n), G, 50, 2, 2).done
cNLen == <<255, 255, 120, 8, 255, 1, 255>>
cNLenInl == <<1, 8, 1, 20, 8, 1, 36>>
G1kCsum == [bs |-> 1024, tail |-> 12, cs |-> 12]
G1k == [bs |-> 1024, tail |-> 0, cs |-> 0]
=============================================================================
