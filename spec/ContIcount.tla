----------------------------- MODULE ContIcount -----------------------------
(* lib/ext2fs/icount.c: inode reference counts, refining a counter map (ContAbs).

   Three shapes, chosen by the flags of ext2fs_create_icount2():
     icMode = 0   "list":   bitmap `single' (count = 1) + sorted list for everything else
     icMode = 1   "multi":  EXT2_ICOUNT_OPT_INCREMENT: additionally bitmap `multiple'
                            (inode has a meaningful list element)
     icMode = 2   "full":   EXT2_ICOUNT_OPT_FULLMAP|INCREMENT: one 16-bit counter per inode

   icSingle, icMulti   the bitmaps as sets of inode numbers
   icList     the first `count' elements of icount->list as <<ino, count>>; elements never leave the list
   icSize     icount->size; icCursor icount->cursor (0-based); icLast  slot of icount->last_lookup + 1 (0 = NULL)
   icFull     the fullmap (mode 2)
   icN        icount->num_inodes
   icRef      the counter map
   icRes      [op, impl, ref]

   The 16-bit interface: list counts are 32 bit, every value handed out goes through icount_16_xlate
   (saturation at IcCap = 65500); ext2fs_icount_store takes a __u16 (0..IcU16).  In fullmap mode the
   STORED value saturates (increment: xlate(old + 1); store: xlate(count)), so there the counter map itself is the
   saturating one.

   Growth (insert_icount_el): new size = count * (num_inodes / last ino) computed in float, at least size + IcGrow.
   The float result may differ from the exact quotient by one; IcSlack = -IcSlackMax..IcSlackMax is the set of
   admitted differences ({0} for model checking).                                                                             *)
EXTENDS ContAbs
CONSTANTS IcGrow,       \* 100
          IcCap,        \* 65500
          IcU16,        \* 65535: largest value ext2fs_icount_store can be given
          IcMaxCount,   \* bound on counts (model checking only)
          IcSlackMax,   \* admitted float rounding difference of the size estimate (0 for model checking, 1 for traces)
          IcModes,      \* modes explored from Init
          IcMaxN,       \* Init: number of inodes
          IcInitSizes   \* Init: sizes passed to ext2fs_create_icount2
VARIABLES icMode, icSingle, icMulti, icList, icSize, icCursor, icLast, icFull, icN, icRef, icRes
icVars == <<icMode, icSingle, icMulti, icList, icSize, icCursor, icLast, icFull, icN, icRef, icRes>>

IcSlack == (0 - IcSlackMax)..IcSlackMax
IcXl(x) == IF x > IcCap THEN IcCap ELSE x                      \* icount_16_xlate
IcR(o, i, r) == [op |-> o, impl |-> i, ref |-> r]
IcRV(e, v) == <<e, v>>
\* the list part of the state, threaded through the helpers
IcSt == [x |-> icList, size |-> icSize, cur |-> icCursor, last |-> icLast]

\* ------------------------------------------------------------ insert_icount_el(icount, ino, pos)
\* returns the set of possible [x, size, cur, last, idx] (more than one only through IcSlack)
IcNewSizes(st) ==
   LET n == Len(st.x) IN
   IF n = 0 THEN {st.size + IcGrow}
   ELSE {Greater(st.size + IcGrow, ((n * icN) \div st.x[n][1]) + d) : d \in IcSlack}
IcInsertEl(st, ino, pos) ==
   IF st.last # 0 /\ st.last <= Len(st.x) /\ st.x[st.last][1] = ino
   THEN {[st EXCEPT !.idx = st.last]}                           \* "last_lookup" short cut
   ELSE LET sizes == IF Len(st.x) >= st.size THEN IcNewSizes(st) ELSE {st.size} IN
        {IF Len(st.x) - pos < 0 THEN [st EXCEPT !.size = s, !.idx = 0]
         ELSE [st EXCEPT !.x = InsertAt0(st.x, pos, <<ino, 0>>), !.size = s, !.last = pos + 1, !.idx = pos + 1] : s \in sizes}

RECURSIVE IcBsearch(_, _, _, _)
IcBsearch(x, ino, low, high) ==
   IF low > high THEN [hit |-> -1, low |-> low]
   ELSE LET mid == (low + high) \div 2 IN
        IF ino = x[mid + 1][1] THEN [hit |-> mid, low |-> low]
        ELSE IF ino < x[mid + 1][1] THEN IcBsearch(x, ino, low, mid - 1)
        ELSE IcBsearch(x, ino, mid + 1, high)

\* ------------------------------------------------------------ get_icount_el(icount, ino, create): set of results
IcGetEl(st0, ino, create) ==
   LET st == [x |-> st0.x, size |-> st0.size, cur |-> st0.cur, last |-> st0.last, idx |-> 0]
       n  == Len(st.x) IN
   IF create /\ (n = 0 \/ ino > st.x[n][1]) THEN IcInsertEl(st, ino, n)
   ELSE IF n = 0 THEN {st}
   ELSE LET c1 == IF st.cur >= n THEN 0 ELSE st.cur IN
        IF ino = st.x[c1 + 1][1] THEN {[st EXCEPT !.cur = c1 + 1, !.idx = c1 + 1]}
        ELSE LET b == IcBsearch(st.x, ino, 0, n - 1) IN
             IF b.hit >= 0 THEN {[st EXCEPT !.cur = b.hit + 1, !.idx = b.hit + 1]}
             ELSE IF create THEN IcInsertEl([st EXCEPT !.cur = c1], ino, b.low)
             ELSE {[st EXCEPT !.cur = c1]}

\* set_inode_count / get_inode_count on the list (modes 0, 1); g ranges over IcGetEl results
IcSetIn(g, count) == IF g.idx = 0 THEN g ELSE [g EXCEPT !.x = [g.x EXCEPT ![g.idx] = <<g.x[g.idx][1], count>>]]
IcValIn(g) == IF g.idx = 0 THEN 0 ELSE g.x[g.idx][2]
IcPut(g) == /\ icList' = g.x /\ icSize' = g.size /\ icCursor' = g.cur /\ icLast' = g.last
IcKeepList == UNCHANGED <<icList, icSize, icCursor, icLast>>
IcKeepShape == UNCHANGED <<icMode, icN>>
IcValid(ino) == ino >= 1 /\ ino <= icN
IcSat(v) == IF icMode = 2 THEN IcXl(v) ELSE v                  \* what the counter map keeps in this mode

\* every entry point first refuses an inode number outside 1..num_inodes
IcRefuse(op, ino) == /\ ~IcValid(ino)
                     /\ icRes' = IcR(op, IcRV(EINVAL, -1), IcRV(EINVAL, -1))
                     /\ UNCHANGED <<icMode, icSingle, icMulti, icList, icSize, icCursor, icLast, icFull, icN, icRef>>

\* ------------------------------------------------------------ ext2fs_icount_fetch
IcFetch(ino) ==
   \/ IcRefuse("fetch", ino)
   \/ /\ IcValid(ino)
      /\ IF icMode = 2 THEN IcKeepList /\ icRes' = IcR("fetch", IcRV(OK, IcXl(icFull[ino])), IcRV(OK, IcXl(icRef[ino])))
         ELSE IF ino \in icSingle THEN IcKeepList /\ icRes' = IcR("fetch", IcRV(OK, 1), IcRV(OK, IcXl(icRef[ino])))
         ELSE IF icMode = 1 /\ ino \notin icMulti THEN IcKeepList /\ icRes' = IcR("fetch", IcRV(OK, 0), IcRV(OK, IcXl(icRef[ino])))
         ELSE \E g \in IcGetEl(IcSt, ino, FALSE) :
                 IcPut(g) /\ icRes' = IcR("fetch", IcRV(OK, IcXl(IcValIn(g))), IcRV(OK, IcXl(icRef[ino])))
      /\ UNCHANGED <<icSingle, icMulti, icFull, icRef>> /\ IcKeepShape

\* ------------------------------------------------------------ ext2fs_icount_increment
IcIncrement(ino) ==
   \/ IcRefuse("increment", ino)
   \/ /\ IcValid(ino) /\ icRef[ino] < IcMaxCount
      /\ icRef' = [icRef EXCEPT ![ino] = IcSat(@ + 1)]
      /\ LET refres == IcRV(OK, IcXl(icRef[ino] + 1)) IN
         IF icMode = 2 THEN
            /\ icFull' = [icFull EXCEPT ![ino] = IcXl(@ + 1)]
            /\ icRes' = IcR("increment", IcRV(OK, IcXl(IcXl(icFull[ino] + 1))), refres)
            /\ IcKeepList /\ UNCHANGED <<icSingle, icMulti>>
         ELSE IF ino \in icSingle THEN
            \* "If the existing count is 1, then we know there is no entry in the list."
            \E g \in IcGetEl(IcSt, ino, TRUE) :
               /\ IcPut(IcSetIn(g, 2))
               /\ IF g.idx = 0 THEN icRes' = IcR("increment", IcRV(ENOMEM, -1), refres) /\ UNCHANGED <<icSingle, icMulti>>
                  ELSE /\ icSingle' = icSingle \ {ino}
                       /\ icMulti' = IF icMode = 1 THEN icMulti \cup {ino} ELSE icMulti
                       /\ icRes' = IcR("increment", IcRV(OK, IcXl(2)), refres)
               /\ UNCHANGED icFull
         ELSE IF icMode = 1 /\ ino \notin icMulti THEN
            \* "The count was zero; mark the single bitmap and return."
            /\ icSingle' = icSingle \cup {ino}
            /\ icRes' = IcR("increment", IcRV(OK, 1), refres)
            /\ IcKeepList /\ UNCHANGED <<icMulti, icFull>>
         ELSE
            \* get_inode_count, + 1, set_inode_count (the second look-up hits the cursor or searches again)
            \E g1 \in IcGetEl(IcSt, ino, FALSE) :
               LET v == IcValIn(g1) + 1 IN
               \E g \in IcGetEl(g1, ino, TRUE) :
                  /\ IcPut(IcSetIn(g, v))
                  /\ IF g.idx = 0 THEN icRes' = IcR("increment", IcRV(ENOMEM, -1), refres) /\ UNCHANGED icMulti
                     ELSE /\ icMulti' = IF icMode = 1 THEN icMulti \cup {ino} ELSE icMulti
                          /\ icRes' = IcR("increment", IcRV(OK, IcXl(v)), refres)
                  /\ UNCHANGED <<icSingle, icFull>>
      /\ IcKeepShape

\* ------------------------------------------------------------ ext2fs_icount_decrement
IcDecrement(ino) ==
   \/ IcRefuse("decrement", ino)
   \/ /\ IcValid(ino)
      /\ icRef' = IF icRef[ino] > 0 THEN [icRef EXCEPT ![ino] = @ - 1] ELSE icRef
      /\ LET refres == IF icRef[ino] > 0 THEN IcRV(OK, IcXl(icRef[ino] - 1)) ELSE IcRV(EINVAL, -1) IN
         IF icMode = 2 THEN
            /\ IF icFull[ino] = 0 THEN icFull' = icFull /\ icRes' = IcR("decrement", IcRV(EINVAL, -1), refres)
               ELSE icFull' = [icFull EXCEPT ![ino] = @ - 1] /\ icRes' = IcR("decrement", IcRV(OK, IcXl(icFull[ino] - 1)), refres)
            /\ IcKeepList /\ UNCHANGED <<icSingle, icMulti>>
         ELSE IF ino \in icSingle THEN
            /\ icSingle' = icSingle \ {ino}
            /\ IF icMode = 1 THEN icMulti' = icMulti \ {ino} /\ IcKeepList
               ELSE icMulti' = icMulti /\ \E g \in IcGetEl(IcSt, ino, TRUE) : IcPut(IcSetIn(g, 0))     \* set_inode_count(icount, ino, 0), result ignored
            /\ icRes' = IcR("decrement", IcRV(OK, 0), refres)
            /\ UNCHANGED icFull
         ELSE IF icMode = 1 /\ ino \notin icMulti THEN
            /\ icRes' = IcR("decrement", IcRV(EINVAL, -1), refres)
            /\ IcKeepList /\ UNCHANGED <<icSingle, icMulti, icFull>>
         ELSE
            \E g1 \in IcGetEl(IcSt, ino, FALSE) :
               IF IcValIn(g1) = 0 THEN
                  /\ IcPut(g1) /\ icRes' = IcR("decrement", IcRV(EINVAL, -1), refres)
                  /\ UNCHANGED <<icSingle, icMulti, icFull>>
               ELSE LET v == IcValIn(g1) - 1 IN
                  \E g \in IcGetEl(g1, ino, TRUE) :
                     /\ IcPut(IcSetIn(g, v))
                     /\ IF g.idx = 0 THEN icRes' = IcR("decrement", IcRV(ENOMEM, -1), refres) /\ UNCHANGED <<icSingle, icMulti>>
                        ELSE /\ icSingle' = IF v = 1 THEN icSingle \cup {ino} ELSE icSingle
                             /\ icMulti' = IF v = 0 /\ icMode = 1 THEN icMulti \ {ino} ELSE icMulti
                             /\ icRes' = IcR("decrement", IcRV(OK, IcXl(v)), refres)
                     /\ UNCHANGED icFull
      /\ IcKeepShape

\* ------------------------------------------------------------ ext2fs_icount_store(icount, ino, __u16 count)
IcStore(ino, c) ==
   \/ IcRefuse("store", ino) /\ c \in 0..IcU16
   \/ /\ IcValid(ino) /\ c \in 0..IcU16
      /\ icRef' = [icRef EXCEPT ![ino] = IcSat(c)]
      /\ IF icMode = 2 THEN
            /\ icFull' = [icFull EXCEPT ![ino] = IcXl(c)]
            /\ icRes' = IcR("store", IcRV(OK, -1), IcRV(OK, -1))
            /\ IcKeepList /\ UNCHANGED <<icSingle, icMulti>>
         ELSE IF c = 1 THEN
            /\ icSingle' = icSingle \cup {ino}
            /\ icMulti' = IF icMode = 1 THEN icMulti \ {ino} ELSE icMulti
            /\ icRes' = IcR("store", IcRV(OK, -1), IcRV(OK, -1))
            /\ IcKeepList /\ UNCHANGED icFull
         ELSE IF c = 0 THEN
            /\ icSingle' = icSingle \ {ino}
            /\ IF icMode = 1 THEN icMulti' = icMulti \ {ino} /\ IcKeepList
               ELSE icMulti' = icMulti /\ \E g \in IcGetEl(IcSt, ino, TRUE) : IcPut(IcSetIn(g, 0))
            /\ icRes' = IcR("store", IcRV(OK, -1), IcRV(OK, -1))
            /\ UNCHANGED icFull
         ELSE
            \E g \in IcGetEl(IcSt, ino, TRUE) :
               /\ IcPut(IcSetIn(g, c))
               /\ IF g.idx = 0 THEN icRes' = IcR("store", IcRV(ENOMEM, -1), IcRV(OK, -1)) /\ UNCHANGED <<icSingle, icMulti>>
                  ELSE /\ icSingle' = icSingle \ {ino}
                       /\ icMulti' = IF icMode = 1 THEN icMulti \cup {ino} ELSE icMulti
                       /\ icRes' = IcR("store", IcRV(OK, -1), IcRV(OK, -1))
               /\ UNCHANGED icFull
      /\ IcKeepShape

\* ------------------------------------------------------------ ext2fs_create_icount2(fs, flags, size, hint = the current icount)
\* (e2fsck pass 2 creates inode_count with pass 1's inode_link_info as the hint): the new list holds the hint's inode
\* numbers with count 0, its size is at least the hint's
IcRecreate(mode, size) ==
   /\ mode \in 0..2 /\ size >= 1
   /\ icMode' = mode /\ icSingle' = {} /\ icMulti' = {}
   /\ icFull' = [i \in 1..icN |-> 0]
   /\ IF mode = 2 THEN icList' = <<>> /\ icSize' = 0           \* "if (icount->fullmap) goto successout": no list at all
      ELSE /\ icSize' = Greater(size, icSize)
           /\ icList' = [i \in 1..Len(icList) |-> <<icList[i][1], 0>>]
   /\ icCursor' = 0 /\ icLast' = 0
   /\ icRef' = [i \in 1..icN |-> 0]
   /\ icRes' = IcR("recreate", IcRV(OK, -1), IcRV(OK, -1))
   /\ UNCHANGED icN

IcInitWith(mode, n, size) ==
   /\ icMode = mode /\ icN = n /\ icSingle = {} /\ icMulti = {}
   /\ icList = <<>> /\ icSize = (IF mode = 2 THEN 0 ELSE size) /\ icCursor = 0 /\ icLast = 0
   /\ icFull = [i \in 1..n |-> 0] /\ icRef = [i \in 1..n |-> 0]
   /\ icRes = IcR("init", IcRV(OK, -1), IcRV(OK, -1))
IcInit == \E m \in IcModes : \E s \in IcInitSizes : IcInitWith(m, IcMaxN, s)
IcNext == \/ \E ino \in 0..(icN + 1) : IcFetch(ino) \/ IcIncrement(ino) \/ IcDecrement(ino)
          \/ \E ino \in 0..(icN + 1) : \E c \in 0..IcU16 : IcStore(ino, c)
          \/ \E m \in IcModes : \E s \in IcInitSizes : IcRecreate(m, s)
IcSpec == IcInit /\ [][IcNext]_icVars

\* ------------------------------------------------------------ invariants
\* the count the structure holds for an inode (what ext2fs_icount_fetch reads, before the 16-bit translation)
IcHeld(ino) == IF icMode = 2 THEN icFull[ino]
               ELSE IF ino \in icSingle THEN 1
               ELSE IF icMode = 1 /\ ino \notin icMulti THEN 0
               ELSE LET hits == {i \in 1..Len(icList) : icList[i][1] = ino} IN
                    IF hits = {} THEN 0 ELSE icList[MinOf(hits)][2]
IcStructural == /\ (icMode # 2 => Len(icList) <= icSize)
                /\ KeysStrictlyAscending(icList)
                /\ \A i \in 1..Len(icList) : icList[i][1] \in 1..icN
                /\ icSingle \subseteq 1..icN /\ icMulti \subseteq 1..icN
                /\ (icMode # 1 => icMulti = {})
                /\ icLast \in 0..Len(icList)
IcRefines == \A ino \in 1..icN : IcHeld(ino) = icRef[ino]
IcResultsAgree == icRes.impl = icRes.ref
\* cheaper formulation of IcRefines for long lists (trace validation): compare supports instead of sweeping the list per inode
IcHeldPairs == IF icMode = 2 THEN {<<i, icFull[i]>> : i \in {j \in 1..icN : icFull[j] # 0}}
               ELSE {<<i, 1>> : i \in icSingle}
                    \cup {e \in SeqRange(icList) : e[2] # 0 /\ e[1] \notin icSingle /\ (icMode = 1 => e[1] \in icMulti)}
\* in mode 1 an inode marked in `multiple' but absent from the list would read as 0 through the list: covered because its
\* pair is then missing on the left while CmPairs has it, or both sides lack it
IcRefinesFast == IcHeldPairs = CmPairs(icRef)
=============================================================================
