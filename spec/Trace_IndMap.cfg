SPECIFICATION TraceSpec
CONSTANTS
  ND = 12
  A = 256
  Inf = 2000000001
  DevIndPunchRange = FALSE
  MaxPunches = 1000000
INVARIANT MapUpdatedExactly
POSTCONDITION TraceAccepted
CHECK_DEADLOCK FALSE
