--------------------------- MODULE Trace_BitmapRb ---------------------------
(* Trace validation for C16: every line that harness/bmdrv.c logs (operation, arguments as the caller passed
   them, result on each back end, rbtree extents + cursors from hook H2, full bit vector of each back end as runs
   of ones) must be the step BitmapRb takes, and the invariants of BitmapRb are evaluated after every line.
   The cluster conversion of the generic layer (gen_bitmap64.c) is applied here, as the code applies it before
   calling the back end.

   Interval abstraction (DESIGN 2.3, header of BitmapRb).  A behaviour's reset line carries a table of cut points
   cut = <<c_0 = 0, c_1, ..., c_K>> (bit positions relative to the bitmap start, increasing; drawn by the check from
   the boundary catalogue of the real constants).  BitmapRb then runs on CELL indices: cell k = c_k .. c_(k+1) - 1.
   Every logged position (argument, extent bound, run bound, find-first answer, end, real_end) must be a cut point
   and is replaced by its index; a line that shows any other position is rejected (no cell of the reference set can
   be half set).  An empty table means positions are bits (cells of width one), which is the small-range mode. *)
EXTENDS BitmapRb, Json, IOUtils, Integers, FiniteSets
VARIABLES l, bstart, ratio, cut
tvars == <<vars, l, bstart, ratio, cut>>
Tr == ndJsonDeserialize(IOEnv.TRACE)

ToSet(q) == {q[i] : i \in 1..Len(q)}
\* ---- the order-preserving map between real positions and cell indices (ct: a cut table)
IsCutIn(ct, p) == ct = <<>> \/ \E k \in 1..Len(ct) : ct[k] = p
PIn(ct, p) == IF ct = <<>> THEN p
              ELSE IF \E k \in 1..Len(ct) : ct[k] = p THEN (CHOOSE k \in 1..Len(ct) : ct[k] = p) - 1
              ELSE -1000                                              \* never equal to anything the spec computes
IsCut(p) == IsCutIn(cut, p)
P(p) == PIn(cut, p)
Unp(k) == IF cut = <<>> THEN k ELSE IF k + 1 \in 1..Len(cut) THEN cut[k + 1] ELSE -1000    \* cell index -> its first bit
CellOf(p) == IF cut = <<>> THEN p ELSE Cardinality({k \in 1..Len(cut) : cut[k] <= p}) - 1  \* the cell holding bit p
OneBit(p) == IsCut(p) /\ IsCut(p + 1)                                  \* p is a cell of its own
Wide == IF cut = <<>> THEN {} ELSE {k \in 0..(Len(cut) - 2) : cut[k + 2] - cut[k + 1] > 1}
PEnd(p) == P(p + 1) - 1                                                \* inclusive last bit -> inclusive last cell
Holds(p) == p = TRUE

\* ---- what the generic layer does with the caller's block numbers (relative, in bitmap units)
U(blk) == (blk \div ratio) - bstart                                   \* arg >>= cluster_bits; arg -= bitmap->start
UE(blk, num) == ((blk + num + ratio - 1) \div ratio) - bstart         \* exclusive end of a range, rounded up
C(blk) == P(U(blk))
CN(blk, num) == P(UE(blk, num)) - P(U(blk))
RangeOk(blk, num) == IsCut(U(blk)) /\ IsCut(UE(blk, num))
\* runs of ones <<first, length>> (relative to base) -> set of cells, relative to the cell of base
RunsOk(runs, base) == \A i \in 1..Len(runs) : IsCut(base + runs[i][1]) /\ IsCut(base + runs[i][1] + runs[i][2]) /\ runs[i][2] > 0
RunCells(runs, base) == UNION {(P(base + runs[i][1]) - P(base))..(P(base + runs[i][1] + runs[i][2]) - P(base) - 1) : i \in 1..Len(runs)}
ExtOk(q) == \A i \in 1..Len(q) : IsCut(q[i][1]) /\ IsCut(q[i][1] + q[i][2])
ToExt(q) == [i \in 1..Len(q) |-> <<P(q[i][1]), P(q[i][1] + q[i][2]) - P(q[i][1])>>]
OnesOf(f, n) == {i - 1 : i \in {j \in 1..n : f[j] = 1}}
BitsFromRuns(runs, base, n) == LET on == RunCells(runs, base) IN [i \in 1..n |-> IF (i - 1) \in on THEN 1 ELSE 0]
\* ext2fs_find_first_*_generic_bmap: back-end answer (relative cluster) -> block number reported to the caller
FFOut(v, a) == IF v = ENOENT THEN ENOENT
               ELSE LET blk == (Unp(v) + bstart) * ratio IN IF blk >= a THEN blk ELSE a

IsEvent(e) == l <= Len(Tr) /\ Tr[l].e = e /\ l' = l + 1
\* what every line logs after the operation
Logged == /\ Holds(ExtOk(Tr[l].ext)) /\ ext' = ToExt(Tr[l].ext)
          /\ cur' = [w |-> Tr[l].w, r |-> Tr[l].r, n |-> Tr[l].n]
          /\ end' = PEnd(Tr[l].end) /\ rend' = PEnd(Tr[l].rend)
          /\ Holds(RunsOk(Tr[l].runs[1], 0)) /\ RunCells(Tr[l].runs[1], 0) = S'      \* bit array back end
          /\ (Tr[l].has32 = 1 => Holds(RunsOk(Tr[l].runs[3], 0)) /\ RunCells(Tr[l].runs[3], 0) = S')   \* legacy 32-bit back end
          /\ Holds(RunsOk(Tr[l].rbrun, 0)) /\ RunCells(Tr[l].rbrun, 0) = S'          \* rbtree read back through ffs/ffz
Keep == UNCHANGED <<bstart, ratio, cut>>
Ret(i) == Tr[l].ret[i]
\* result agreement: rbtree answer = transcription, bit array and legacy answers = the reference set
Rets == /\ Ret(2) = res'.impl /\ Ret(1) = res'.ref /\ (Tr[l].has32 = 1 => Ret(3) = res'.ref)

TReset == /\ IsEvent("reset")
          /\ ext' = <<>> /\ cur' = NoCur /\ S' = {} /\ res' = R("init", 0, 0)
          /\ cut' = Tr[l].cut
          /\ Holds(IsCutIn(Tr[l].cut, 0) /\ IsCutIn(Tr[l].cut, Tr[l].rs_end + 1) /\ IsCutIn(Tr[l].cut, Tr[l].rs_rend + 1))
          /\ Holds(\A k \in 1..(Len(Tr[l].cut) - 1) : Tr[l].cut[k] < Tr[l].cut[k + 1])
          /\ end' = PIn(Tr[l].cut, Tr[l].rs_end + 1) - 1 /\ rend' = PIn(Tr[l].cut, Tr[l].rs_rend + 1) - 1
          /\ bstart' = Tr[l].start /\ ratio' = 2 ^ Tr[l].cb
          /\ Tr[l].ext = <<>> /\ Tr[l].w = 0 /\ Tr[l].r = 0 /\ Tr[l].n = 0
\* single-bit mark / unmark act on a cell of its own; a test may fall anywhere inside a cell
TMark   == IsEvent("mark")   /\ Holds(OneBit(U(Tr[l].a))) /\ Mark(C(Tr[l].a))   /\ Logged /\ Rets /\ Keep
TUnmark == IsEvent("unmark") /\ Holds(OneBit(U(Tr[l].a))) /\ Unmark(C(Tr[l].a)) /\ Logged /\ Rets /\ Keep
TTest   == IsEvent("test")   /\ Test(CellOf(U(Tr[l].a)))   /\ Logged /\ Rets /\ Keep
TMarkR  == IsEvent("mark_range")   /\ Holds(RangeOk(Tr[l].a, Tr[l].b)) /\ MarkRange(C(Tr[l].a), CN(Tr[l].a, Tr[l].b))   /\ Logged /\ Keep
TUnmarkR == IsEvent("unmark_range") /\ Holds(RangeOk(Tr[l].a, Tr[l].b)) /\ UnmarkRange(C(Tr[l].a), CN(Tr[l].a, Tr[l].b)) /\ Logged /\ Keep
\* (a range test of exactly one bit is routed through test_bmap by the generic layer and is not issued)
TTestR  == IsEvent("test_range")   /\ Holds(RangeOk(Tr[l].a, Tr[l].b) /\ Tr[l].b >= 2)
           /\ TestClearRange(C(Tr[l].a), CN(Tr[l].a, Tr[l].b)) /\ Logged /\ Rets /\ Keep
FFArgs == Holds(IsCut(U(Tr[l].a)) /\ IsCut(U(Tr[l].b) + 1))
TFfz == /\ IsEvent("ffz") /\ FFArgs /\ Ffz(C(Tr[l].a), PEnd(U(Tr[l].b))) /\ Logged /\ Keep
        /\ Ret(2) = FFOut(res'.impl, Tr[l].a) /\ Ret(1) = FFOut(res'.ref, Tr[l].a)
        /\ (Tr[l].has32 = 1 => Ret(3) = FFOut(res'.ref, Tr[l].a))
TFfs == /\ IsEvent("ffs") /\ FFArgs /\ Ffs(C(Tr[l].a), PEnd(U(Tr[l].b))) /\ Logged /\ Keep
        /\ Ret(2) = FFOut(res'.impl, Tr[l].a) /\ Ret(1) = FFOut(res'.ref, Tr[l].a)
        /\ (Tr[l].has32 = 1 => Ret(3) = FFOut(res'.ref, Tr[l].a))
\* get/set_range take positions in bitmap units (not divided by the cluster ratio), as rw_bitmaps.c passes them
GBase == Tr[l].a - bstart
GLen == P(GBase + Tr[l].b) - P(GBase)
GArgs == Holds(IsCut(GBase) /\ IsCut(GBase + Tr[l].b))
TGet == /\ IsEvent("get_range") /\ GArgs /\ GetRange(P(GBase), GLen) /\ Logged /\ Keep
        /\ Holds(RunsOk(Ret(2), GBase)) /\ RunCells(Ret(2), GBase) = OnesOf(res'.impl, GLen)
        /\ Holds(RunsOk(Ret(1), GBase)) /\ RunCells(Ret(1), GBase) = OnesOf(res'.ref, GLen)
        /\ (Tr[l].has32 = 1 => Holds(RunsOk(Ret(3), GBase)) /\ RunCells(Ret(3), GBase) = OnesOf(res'.ref, GLen))
TSet == /\ IsEvent("set_range") /\ GArgs /\ Holds(RunsOk(Tr[l].bitsin, GBase))
        /\ SetRange(P(GBase), BitsFromRuns(Tr[l].bitsin, GBase, GLen)) /\ Logged /\ Keep
TClear == IsEvent("clear") /\ Clear /\ Logged /\ Keep
TCopy  == IsEvent("copy") /\ Copy /\ Logged /\ Keep
TPad   == IsEvent("set_padding") /\ SetPadding /\ Logged /\ Keep
TResize == /\ IsEvent("resize") /\ Holds(IsCut(Tr[l].a - bstart + 1) /\ IsCut(Tr[l].b - bstart + 1))
           /\ Resize(PEnd(Tr[l].a - bstart), PEnd(Tr[l].b - bstart)) /\ Logged /\ Keep
TCmp == /\ IsEvent("cmp")
        /\ (IF Tr[l].a < 0 THEN CompareEqW(Wide)
            ELSE Holds(OneBit(Tr[l].a - bstart)) /\ CompareFlipW(P(Tr[l].a - bstart), Wide))
        /\ Logged /\ Rets /\ Keep

TraceInit == /\ ext = <<>> /\ cur = NoCur /\ S = {} /\ res = R("init", 0, 0) /\ end = 0 /\ rend = 0
             /\ l = 1 /\ bstart = 0 /\ ratio = 1 /\ cut = <<>>
TraceNext == TReset \/ TMark \/ TUnmark \/ TTest \/ TMarkR \/ TUnmarkR \/ TTestR \/ TFfz \/ TFfs \/ TGet \/ TSet
             \/ TClear \/ TCopy \/ TPad \/ TResize \/ TCmp
TraceSpec == TraceInit /\ [][TraceNext]_tvars
TraceAccepted == TLCGet("stats").diameter - 1 = Len(Tr)
Matched == l - 1            \* for the failure report: number of lines matched so far
=============================================================================
