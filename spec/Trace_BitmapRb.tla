--------------------------- MODULE Trace_BitmapRb ---------------------------
(* Trace validation for C16: every line that harness/bmdrv.c logs (operation, arguments as the caller passed
   them, result on each back end, rbtree extents + cursors from hook H2, full bit vector of each back end) must be
   the step BitmapRb takes, and the invariants of BitmapRb are evaluated after every line.
   The cluster conversion of the generic layer (gen_bitmap64.c) is applied here, as the code applies it before
   calling the back end.                                                                                        *)
EXTENDS BitmapRb, Json, IOUtils, Integers
VARIABLES l, bstart, ratio
tvars == <<vars, l, bstart, ratio>>
Tr == ndJsonDeserialize(IOEnv.TRACE)

ToSet(q) == {q[i] : i \in 1..Len(q)}
ToExt(q) == [i \in 1..Len(q) |-> <<q[i][1], q[i][2]>>]
C(blk) == (blk \div ratio) - bstart                              \* arg >>= cluster_bits; arg -= bitmap->start
CN(blk, num) == ((blk + num + ratio - 1) \div ratio) - (blk \div ratio)
OnesOf(f, n) == {i - 1 : i \in {j \in 1..n : f[j] = 1}}
BitsFromOffsets(offs, n) == [i \in 1..n |-> IF (i - 1) \in ToSet(offs) THEN 1 ELSE 0]
\* ext2fs_find_first_*_generic_bmap: back-end answer (relative cluster) -> block number reported to the caller
FFOut(v, a) == IF v = ENOENT THEN ENOENT
               ELSE LET blk == (v + bstart) * ratio IN IF blk >= a THEN blk ELSE a

IsEvent(e) == l <= Len(Tr) /\ Tr[l].e = e /\ l' = l + 1
\* what every line logs after the operation
Logged == /\ ext' = ToExt(Tr[l].ext)
          /\ cur' = [w |-> Tr[l].w, r |-> Tr[l].r, n |-> Tr[l].n]
          /\ end' = Tr[l].end /\ rend' = Tr[l].rend
          /\ ToSet(Tr[l].bits[1]) = S'                              \* bit array back end
          /\ (Tr[l].has32 = 1 => ToSet(Tr[l].bits[3]) = S')          \* legacy 32-bit back end
          /\ ToSet(Tr[l].rbff) = S'                                  \* rbtree read back through ffs/ffz
Keep == UNCHANGED <<bstart, ratio>>
Ret(i) == Tr[l].ret[i]
\* result agreement: rbtree answer = transcription, bit array and legacy answers = the reference set
Rets == /\ Ret(2) = res'.impl /\ Ret(1) = res'.ref /\ (Tr[l].has32 = 1 => Ret(3) = res'.ref)

TReset == /\ IsEvent("reset")
          /\ ext' = <<>> /\ cur' = NoCur /\ S' = {} /\ res' = R("init", 0, 0)
          /\ end' = Tr[l].rs_end /\ rend' = Tr[l].rs_rend
          /\ bstart' = Tr[l].start /\ ratio' = 2 ^ Tr[l].cb
          /\ Tr[l].ext = <<>> /\ Tr[l].w = 0 /\ Tr[l].r = 0 /\ Tr[l].n = 0
TMark   == IsEvent("mark")   /\ Mark(C(Tr[l].a))   /\ Logged /\ Rets /\ Keep
TUnmark == IsEvent("unmark") /\ Unmark(C(Tr[l].a)) /\ Logged /\ Rets /\ Keep
TTest   == IsEvent("test")   /\ Test(C(Tr[l].a))   /\ Logged /\ Rets /\ Keep
TMarkR  == IsEvent("mark_range")   /\ MarkRange(C(Tr[l].a), CN(Tr[l].a, Tr[l].b))   /\ Logged /\ Keep
TUnmarkR == IsEvent("unmark_range") /\ UnmarkRange(C(Tr[l].a), CN(Tr[l].a, Tr[l].b)) /\ Logged /\ Keep
TTestR  == IsEvent("test_range")   /\ TestClearRange(C(Tr[l].a), CN(Tr[l].a, Tr[l].b)) /\ Logged /\ Rets /\ Keep
TFfz == /\ IsEvent("ffz") /\ Ffz(C(Tr[l].a), C(Tr[l].b)) /\ Logged /\ Keep
        /\ Ret(2) = FFOut(res'.impl, Tr[l].a) /\ Ret(1) = FFOut(res'.ref, Tr[l].a)
        /\ (Tr[l].has32 = 1 => Ret(3) = FFOut(res'.ref, Tr[l].a))
TFfs == /\ IsEvent("ffs") /\ Ffs(C(Tr[l].a), C(Tr[l].b)) /\ Logged /\ Keep
        /\ Ret(2) = FFOut(res'.impl, Tr[l].a) /\ Ret(1) = FFOut(res'.ref, Tr[l].a)
        /\ (Tr[l].has32 = 1 => Ret(3) = FFOut(res'.ref, Tr[l].a))
\* get/set_range take positions in bitmap units (not divided by the cluster ratio), as rw_bitmaps.c passes them
TGet == /\ IsEvent("get_range") /\ GetRange(Tr[l].a - bstart, Tr[l].b) /\ Logged /\ Keep
        /\ ToSet(Ret(2)) = OnesOf(res'.impl, Tr[l].b) /\ ToSet(Ret(1)) = OnesOf(res'.ref, Tr[l].b)
        /\ (Tr[l].has32 = 1 => ToSet(Ret(3)) = OnesOf(res'.ref, Tr[l].b))
TSet == IsEvent("set_range") /\ SetRange(Tr[l].a - bstart, BitsFromOffsets(Tr[l].bitsin, Tr[l].b)) /\ Logged /\ Keep
TClear == IsEvent("clear") /\ Clear /\ Logged /\ Keep
TCopy  == IsEvent("copy") /\ Copy /\ Logged /\ Keep
TPad   == IsEvent("set_padding") /\ SetPadding /\ Logged /\ Keep
TResize == IsEvent("resize") /\ Resize(Tr[l].a - bstart, Tr[l].b - bstart) /\ Logged /\ Keep
TCmp == /\ IsEvent("cmp") /\ (IF Tr[l].a < 0 THEN CompareEq ELSE CompareFlip(Tr[l].a - bstart)) /\ Logged /\ Rets /\ Keep

TraceInit == /\ ext = <<>> /\ cur = NoCur /\ S = {} /\ res = R("init", 0, 0) /\ end = 0 /\ rend = 0
             /\ l = 1 /\ bstart = 0 /\ ratio = 1
TraceNext == TReset \/ TMark \/ TUnmark \/ TTest \/ TMarkR \/ TUnmarkR \/ TTestR \/ TFfz \/ TFfs \/ TGet \/ TSet
             \/ TClear \/ TCopy \/ TPad \/ TResize \/ TCmp
TraceSpec == TraceInit /\ [][TraceNext]_tvars
TraceAccepted == TLCGet("stats").diameter - 1 = Len(Tr)
Matched == l - 1            \* for the failure report: number of lines matched so far
=============================================================================
