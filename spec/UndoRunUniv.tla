------------------------------ MODULE UndoRunUniv ------------------------------
(* Property C12, tool level: the part of the universe of recorded runs ("for every tool, every operation of that tool,
   every filesystem content / feature set / block size, every chain of tools appending to one undo file") that is a
   PRODUCT -- operation x base image x state the tool finds the image in x length of the device -- and is therefore
   enumerated here instead of being listed by hand (the hand-written list of checks/c12.py keeps the elements that are
   not of this shape: offsets, mixed block sizes, undo of the undo, unfinished records).

   Every element is a record [name, base, state, tail, steps, core, stratum]:
     base    a base image of checks/c12.py (BaseFacts below are the facts the applicability rules need; the check
             verifies them on the image it built: Emit_UndoRunUniv writes them out, c12.py compares with dumpe2fs)
     state   what the recording tool finds (prepared by the check with debugfs, without -z, before the recorded run):
               clean            as built
               needs_recovery   a committed transaction in the journal that has not been replayed (the tools that replay
                                it -- e2fsck, debugfs jr -- write through a second open of the filesystem: e2fsck closes
                                the filesystem after the replay and RESTARTS from the beginning)
               orphans          an orphan inode list: one inode to delete, one to truncate (processed when e2fsck opens
                                the filesystem, before pass 1, also without -f)
               nr_orphans       both
               restart          an inode with more illegal blocks than e2fsck tolerates: it is cleared and e2fsck
                                RESTARTS from the beginning (E2F_FLAG_RESTART), i.e. closes and reopens the filesystem
     tail    KiB by which the device is longer than the base image: the device length is then an odd multiple of 1 KiB,
             not a multiple of the undo block size (mke2fs: 32 KiB; the other tools: the filesystem block size), and the
             device ends in a partial undo block
     steps   operation names, all recorded into ONE undo file (the argv of an operation is bound in checks/c12.py TOOL_OPS)
   The oracle does not depend on the element: Trace_UndoRun (write-ahead, exactly once, unit, e2undo contract).          *)
EXTENDS Integers, Sequences, FiniteSets, TLC

Bases == {"ext4_1k", "ext3_1k_i128", "ext2_2k", "ext4_4k", "raw"}
BaseFacts == [ext4_1k      |-> [fs |-> TRUE,  bs |-> 1, journal |-> TRUE,  csum |-> TRUE,  extents |-> TRUE,  flex |-> TRUE,  isize |-> 256, bits64 |-> TRUE],
              ext3_1k_i128 |-> [fs |-> TRUE,  bs |-> 1, journal |-> TRUE,  csum |-> FALSE, extents |-> FALSE, flex |-> FALSE, isize |-> 128, bits64 |-> FALSE],
              ext2_2k      |-> [fs |-> TRUE,  bs |-> 2, journal |-> FALSE, csum |-> FALSE, extents |-> FALSE, flex |-> FALSE, isize |-> 256, bits64 |-> FALSE],
              ext4_4k      |-> [fs |-> TRUE,  bs |-> 4, journal |-> TRUE,  csum |-> TRUE,  extents |-> TRUE,  flex |-> TRUE,  isize |-> 256, bits64 |-> FALSE],
              raw          |-> [fs |-> FALSE, bs |-> 0, journal |-> FALSE, csum |-> FALSE, extents |-> FALSE, flex |-> FALSE, isize |-> 0,   bits64 |-> FALSE]]

States == {"clean", "needs_recovery", "orphans", "nr_orphans", "restart"}
StateOk(b, s) == /\ BaseFacts[b].fs
                 /\ (s \in {"needs_recovery", "nr_orphans"} => BaseFacts[b].journal)
\* (mke2fs rounds the filesystem down to a multiple of 4 KiB: with tail 1 no filesystem block reaches the partial undo block,
\*  with 8, 9 and 20 the last filesystem blocks lie inside it)
Tails == {0, 1, 8, 9, 20}
Reaches(t) == t >= 4

\* ------------------------------------------------------------------ operations
\* tool, name, the states in which the operation is run, what it needs of the base
Dirty == States \ {"clean"}
Op(t, o, sts, pre) == [tool |-> t, op |-> o, states |-> sts, pre |-> pre]
AnyBase == "any"
Ops == {
   \* e2fsck: every state that sends it down a less common path; -p / -y without -f stop after the replay / the orphans
   Op("e2fsck", "fsck_fy", Dirty, AnyBase), Op("e2fsck", "fsck_y", {"needs_recovery", "orphans", "nr_orphans"}, AnyBase),
   Op("e2fsck", "fsck_p", {"needs_recovery", "orphans", "nr_orphans"}, AnyBase), Op("e2fsck", "fsck_fyD", States, AnyBase),
   Op("e2fsck", "fsck_fyE", {"clean", "orphans"}, "extents"),             \* -E bmap2extent: rebuilds the extent trees
   \* tune2fs: the operations that rewrite metadata all over the filesystem (as e2fsck would)
   Op("tune2fs", "csum_on", {"clean"}, "nocsum"), Op("tune2fs", "csum_off_uninit", {"clean"}, "csum"),
   Op("tune2fs", "csum_seed_uuid", {"clean"}, "csum"), Op("tune2fs", "uuid_set", {"clean"}, "csum"),
   Op("tune2fs", "ext4_features", {"clean"}, "nocsum_journal"), Op("tune2fs", "quota_on", {"clean"}, AnyBase),
   Op("tune2fs", "project_quota", {"clean"}, "isize256"), Op("tune2fs", "flex_off", {"clean"}, "flex"),
   Op("tune2fs", "orphan_file_on", {"clean"}, "journal"), Op("tune2fs", "journal_cycle", {"clean"}, "journal"),
   Op("tune2fs", "label", Dirty, AnyBase),                                     \* a plain superblock change on a dirty image
   \* resize2fs: moves of block groups' metadata (flex_bg), 64bit conversion, minimum size, growth to the device size
   Op("resize2fs", "to32", {"clean"}, "bits64"), Op("resize2fs", "to64", {"clean"}, "can64"),
   Op("resize2fs", "minimum", {"clean"}, AnyBase), Op("resize2fs", "grow_dev", {"clean"}, AnyBase),
   Op("resize2fs", "grow_stride", {"clean"}, "flex"), Op("resize2fs", "shrink_half", {"clean"}, AnyBase),
   \* debugfs -w: writes through the journal (jo / jw / jc, with a revoke), replay (jr), plain edits on a dirty image
   Op("debugfs", "journal_write", {"clean", "orphans"}, "journal"), Op("debugfs", "journal_run", {"needs_recovery", "nr_orphans"}, "journal"),
   Op("debugfs", "journal_write_run", {"clean"}, "journal"), Op("debugfs", "edit", Dirty, AnyBase),
   \* mke2fs over whatever is there (the state does not matter to it: one representative)
   Op("mke2fs", "mkfs_ext4_1k", {"needs_recovery"}, "bs1")}

Pre(p, b) == LET f == BaseFacts[b] IN
   CASE p = AnyBase -> TRUE
     [] p = "journal" -> f.journal
     [] p = "csum" -> f.csum
     [] p = "nocsum" -> ~f.csum
     [] p = "nocsum_journal" -> ~f.csum /\ f.journal
     [] p = "extents" -> f.extents
     [] p = "flex" -> f.flex
     [] p = "isize256" -> f.isize = 256
     [] p = "bits64" -> f.bits64
     [] p = "can64" -> ~f.bits64 /\ f.extents
     [] p = "bs1" -> f.bs = 1
     [] OTHER -> FALSE

\* ------------------------------------------------------------------ single recorded runs
\* the device length matters to the operations that ask for it (growth to the device size) -- the others get tail 0
UsesDevLen(o) == o.op \in {"grow_dev"}
Singles == {[base |-> b, state |-> s, tail |-> t, steps |-> <<o.op>>, tool |-> o.tool] :
               o \in Ops, b \in Bases, s \in States, t \in Tails}
SingleOk(e, o) == /\ e.steps = <<o.op>> /\ e.tool = o.tool
                  /\ StateOk(e.base, e.state) /\ e.state \in o.states /\ Pre(o.pre, e.base)
                  /\ (e.tail # 0 => UsesDevLen(o))
SingleSet == {e \in Singles : \E o \in Ops : SingleOk(e, o)}

\* ------------------------------------------------------------------ chains on a device that ends in a partial undo block
\* mke2fs (32 KiB undo blocks) records the partial block when it wipes the end of the device; the runs that follow reopen
\* an undo file whose last key ends in a short block and append to it.  All runs use 1 KiB blocks (chains of mixed
\* block sizes are the known finding DevChanUnits and stay the three elements listed in known_findings.txt).
Mkfs == {"mkfs_plain_1k", "mkfs_ext4_1k"}
Appenders == {"dbg_tail_blocks",      \* debugfs: zap the last block of the device (inside the partial undo block) and a far one
              "dbg_populate", "tune_label", "tune_journal_off", "tune_journal_on", "fsck_fyD", "resize_shrink_1k", "mkfs_ext4_1k"}
AppendOk(m, a) == /\ (a = "tune_journal_off" => m = "mkfs_ext4_1k")
                  /\ (a = "tune_journal_on" => m = "mkfs_plain_1k")
TailChains == {e \in {[base |-> "raw", state |-> "clean", tail |-> t, steps |-> <<m, a>>, tool |-> "chain"] :
                         t \in Tails \ {0}, m \in Mkfs, a \in Appenders} : AppendOk(e.steps[1], e.steps[2])}
              \cup {[base |-> "raw", state |-> "clean", tail |-> t, steps |-> <<m, "dbg_tail_blocks", a>>, tool |-> "chain"] :
                  t \in Tails \ {0}, m \in Mkfs, a \in {"dbg_populate", "fsck_fyD", "resize_shrink_1k", "tune_label"}}
              \* the partial block is recorded by the first run of an existing filesystem's chain as well: mke2fs over a base image
              \cup {[base |-> b, state |-> "clean", tail |-> t, steps |-> <<"mkfs_ext4_1k", a>>, tool |-> "chain"] :
                  b \in {"ext4_1k", "ext2_2k"}, t \in {8, 9}, a \in {"dbg_tail_blocks", "tune_label"}}

\* ------------------------------------------------------------------ the universe
Name(e) == e.base \o "|" \o e.state \o "|" \o ToString(e.tail) \o "|" \o
           (LET RECURSIVE J(_) J(i) == IF i > Len(e.steps) THEN "" ELSE (IF i > 1 THEN "+" ELSE "") \o e.steps[i] \o J(i + 1) IN J(1))
\* always part of the quick tier
Core(e) == \/ e.steps = <<"fsck_fy">> /\ e.state = "needs_recovery" /\ e.base \in {"ext4_1k", "ext3_1k_i128"}
           \/ e.steps = <<"fsck_y">> /\ e.state = "nr_orphans" /\ e.base = "ext4_4k"
           \/ e.steps = <<"fsck_fy">> /\ e.state = "restart" /\ e.base \in {"ext2_2k", "ext4_1k"}
           \/ e.steps = <<"journal_run">> /\ e.base = "ext4_1k" /\ e.state = "needs_recovery"
           \/ e.steps = <<"mkfs_ext4_1k", "dbg_tail_blocks">> /\ e.base = "raw" /\ e.tail = 9
           \/ e.steps = <<"mkfs_plain_1k", "dbg_tail_blocks", "tune_label">> /\ e.tail = 8
           \/ e.steps = <<"mkfs_plain_1k", "dbg_tail_blocks", "resize_shrink_1k">> /\ e.tail = 20
\* the quick tier takes one seeded element of every stratum besides the core
Stratum(e) == IF e.tool = "chain" THEN "chain|" \o e.steps[Len(e.steps)] ELSE e.tool \o "|" \o e.state \o "|" \o (IF e.tail = 0 THEN "0" ELSE "odd")
\* what the run of an element has to reach for the element to count as explored (observed by the check on the tool's output
\* and, with its own reader, on the undo file; an element that does not reach it makes the check fail as BROKEN, not as held)
Expect(e) == (IF e.tool = "e2fsck" /\ e.state \in {"needs_recovery", "nr_orphans"} THEN {"journal_recovered", "needs_recovery_cleared"} ELSE {})
             \cup (IF e.steps = <<"journal_run">> THEN {"needs_recovery_cleared"} ELSE {})
             \cup (IF e.tool = "e2fsck" /\ e.state \in {"orphans", "nr_orphans"} THEN {"orphans_processed"} ELSE {})
             \cup (IF e.tool = "e2fsck" /\ e.state = "restart" THEN {"restarted"} ELSE {})
             \* (dbg_tail_blocks writes a block no earlier run of the chain can have touched, so it is certain to append)
             \cup (IF e.tool = "chain" /\ \E i \in 2..Len(e.steps) : e.steps[i] = "dbg_tail_blocks" /\ Reaches(e.tail)
                   THEN {"short_key_then_append"} ELSE {})
Universe == {[name |-> Name(e), base |-> e.base, state |-> e.state, tail |-> e.tail, steps |-> e.steps,
              core |-> Core(e), stratum |-> Stratum(e), expect |-> Expect(e)] : e \in SingleSet \cup TailChains}
=============================================================================
