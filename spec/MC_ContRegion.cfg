SPECIFICATION RgSpec
CONSTANTS
  RgMaxAddr = 8
INVARIANT RgStructural
INVARIANT RgLastIsTail
INVARIANT RgRefines
INVARIANT RgResultsAgree
CHECK_DEADLOCK FALSE
