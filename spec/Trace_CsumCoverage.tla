------------------------- MODULE Trace_CsumCoverage -------------------------
(* One line per byte flip of C14 clause (b):
     {type, off, isize, hi, dsize, nbytes, ehmax, bs, coff, count, tail,   the object and the flipped byte (offset inside the object)
      stale    1 = the independent reader finds the stored checksum no longer matches the object after the flip;
               0 = it still matches; 2 = the reader rejects the altered object for another reason (bad magic, impossible
               field) and gives no checksum verdict
      fsck     exit status of e2fsck -fn on the flipped image
      lib      1 iff the library read path of that object type returned an error
      overlay  1 iff the byte/bit flipped in a block bitmap stands for a block of a BLOCK_UNINIT group's own metadata (else 0)
     }
   Obligation (property text): a covered byte changed and the stored checksum no longer the format's  =>  detected by both.
   The specification's coverage function and the reader's recomputation are two independent statements of the format; a
   disagreement between them (other than a 16-bit truncation collision) is reported as DISAGREE and makes the check broken,
   it is never a verdict about the code.                                                                              *)
EXTENDS CsumCoverage, Json, IOUtils, TLC, Sequences
(* Named deviations of the pinned tree (known findings while TRUE in the cfg; a line they explain is reported as DEVLINE):
     DevUninitOverlayHidesFlip   the flipped bit of a block bitmap stands for a block the library marks in memory anyway, because
                                 it is the bitmap / inode table of a BLOCK_UNINIT group that flex_bg packed into this group
                                 (field overlay = 1): e2fsck compares and checksums the in-memory bitmap, sees no difference
                                 and exits 0 although the on-disk bitmap fails its checksum (library and kernel refuse it)
     DevJsbNrUsersClearsV2       a changed s_nr_users (bytes 64..67) of a checksummed journal superblock makes debugfs's journal
                                 loader treat it as a V1 superblock with junk behind it: it wipes the V2 fields, checksum
                                 feature included, instead of reporting the failed checksum (e2fsck does report it)        *)
CONSTANTS DevUninitOverlayHidesFlip, DevJsbNrUsersClearsV2
VARIABLE l
Tr == ndJsonDeserialize(IOEnv.TRACE)
Obligation(r) == Covered(r, r.off) /\ r.stale \in {1, 2}
Detected(r) == r.fsck # 0 /\ r.lib = 1
Agree(r) == \/ r.stale = 2
            \/ Covered(r, r.off) = (r.stale = 1)
            \/ (Covered(r, r.off) /\ r.stale = 0 /\ Truncated(r))
            \/ (~Covered(r, r.off) /\ r.stale = 1 /\ r.off \in CsumField(r))     \* the stored checksum itself was changed
DevCase(r) == \/ DevUninitOverlayHidesFlip /\ r.type = "bb" /\ r.overlay = 1 /\ r.fsck = 0 /\ r.lib = 1
              \/ DevJsbNrUsersClearsV2 /\ r.type = "jsb" /\ r.off \in 64..67 /\ r.fsck # 0 /\ r.lib = 0
TLine == /\ l <= Len(Tr)
         /\ (IF Obligation(Tr[l]) /\ ~Detected(Tr[l])
             THEN (IF DevCase(Tr[l]) THEN PrintT(<<"DEVLINE", l>>) ELSE PrintT(<<"BADLINE", l>>)) ELSE TRUE)
         /\ (IF ~Agree(Tr[l]) THEN PrintT(<<"DISAGREE", l>>) ELSE TRUE)
         /\ l' = l + 1
TraceSpec == l = 1 /\ [][TLine]_l
TraceAccepted == TLCGet("stats").diameter - 1 = Len(Tr)
=============================================================================
