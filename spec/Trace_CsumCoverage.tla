------------------------- MODULE Trace_CsumCoverage -------------------------
(* One line per byte flip of C14 clause (b):
     {type, off, isize, hi, dsize, nbytes, ehmax, bs, coff, count, tail,   the object and the flipped byte (offset inside the object)
      stale    1 = the independent reader finds the stored checksum no longer matches the object after the flip;
               0 = it still matches; 2 = the reader rejects the altered object for another reason (bad magic, impossible
               field) and gives no checksum verdict
      fsck     exit status of e2fsck -fn on the flipped image
      lib      1 iff the library read path of that object type returned an error
     }
   Obligation (property text): a covered byte changed and the stored checksum no longer the format's  =>  detected by both.
   The specification's coverage function and the reader's recomputation are two independent statements of the format; a
   disagreement between them (other than a 16-bit truncation collision) is reported as DISAGREE and makes the check broken,
   it is never a verdict about the code.                                                                              *)
EXTENDS CsumCoverage, Json, IOUtils, TLC, Sequences
VARIABLE l
Tr == ndJsonDeserialize(IOEnv.TRACE)
Obligation(r) == Covered(r, r.off) /\ r.stale \in {1, 2}
Detected(r) == r.fsck # 0 /\ r.lib = 1
Agree(r) == \/ r.stale = 2
            \/ Covered(r, r.off) = (r.stale = 1)
            \/ (Covered(r, r.off) /\ r.stale = 0 /\ Truncated(r))
            \/ (~Covered(r, r.off) /\ r.stale = 1 /\ r.off \in CsumField(r))     \* the stored checksum itself was changed
TLine == /\ l <= Len(Tr)
         /\ (IF Obligation(Tr[l]) /\ ~Detected(Tr[l]) THEN PrintT(<<"BADLINE", l>>) ELSE TRUE)
         /\ (IF ~Agree(Tr[l]) THEN PrintT(<<"DISAGREE", l>>) ELSE TRUE)
         /\ l' = l + 1
TraceSpec == l = 1 /\ [][TLine]_l
TraceAccepted == TLCGet("stats").diameter - 1 = Len(Tr)
=============================================================================
