SPECIFICATION Spec
CONSTANTS
  N = 8
  BS = 560
  RootLim = 2
  NodeLim = 3
  MaxOps = 6
  WithRebuild = TRUE
INVARIANT InvDx
INVARIANT InvLookup
INVARIANT InvLive
INVARIANT InvChain
INVARIANT InvDisguise
INVARIANT InvRefusal
INVARIANT InvRebuiltForm
CHECK_DEADLOCK FALSE
