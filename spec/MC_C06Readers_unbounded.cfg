SPECIFICATION Spec
CONSTANTS
  DevScanUnbounded = TRUE
INVARIANT ScanBounded
CHECK_DEADLOCK FALSE
