----------------------------- MODULE JournalRun -----------------------------
(* C04 -- journal recovery can be interrupted anywhere and re-run.

   The recovery FRONT-END (e2fsck/journal.c e2fsck_run_ext3_journal / recover_ext3_journal, debugfs/journal.c
   ext2fs_run_ext3_journal, both around e2fsck/recovery.c jbd2_journal_recover) over a DEVICE WITH A VOLATILE WRITE
   CACHE, with unix_io's write-back block cache in between.

   TWO DEVICES.  The journal lives either inside the filesystem (journal inode: one device, one io_channel) or on a device
   of its own (mke2fs -O journal_dev; the filesystem names it by s_journal_uuid): ext = TRUE.  Then the journal superblock
   and the log are locations of the JOURNAL device ("jnl"), the replayed blocks and the primary superblock are locations of the
   FILESYSTEM device ("fs"); each device has its own volatile write cache and its own fsync, the front-ends reach each through
   its own unix_io channel (ctx->fs->io / ctx->journal_io) with its own write-back block cache, and sync_blockdev(kdev) has to
   pick the channel of the device it is asked for.  A completed fsync(d) makes durable the pending writes OF DEVICE d ONLY; a
   crash keeps any subset of the pending writes of the one device and, independently, any subset of those of the other
   (OnDev / CrashImagesAreDeviceProduct below).  ext is part of the universe (chosen in Init among ExtChoices).

   Device level (what harness/iotrace.so observes: pwrite / fsync on the image file(s)):
     dur      content of stable storage (of both devices; every location lives on exactly one, DevOf), abstracted to the
              locations the property talks about:
                blk[b]  version held by filesystem block b (0 = content before recovery)
                jsb     1 = journal superblock says "log has transactions" (s_start # 0), 0 = empty (s_start = 0),
                        2 = empty with s_errno set (a failed recovery recorded in the journal superblock)
                st      1 = the filesystem superblock's s_state records a failed recovery (ERROR_FS set / VALID_FS clear)
                sb      1 = filesystem superblock requests recovery (INCOMPAT_RECOVER), 0 = flag clear
     pend     writes issued and not yet covered by a COMPLETED fsync of their device, in program order: [k, b, v];
              the volatile write cache of device d is the subsequence of the entries with DevOf(k) = d
   The phase of a run as visible from the device is a function of what has been written so far (Cur): "recover" while the
   journal superblock says non-empty, then "released", and "cleared" once the flag is clear too (Ph below).
   A crash leaves dur plus ANY SUBSET of pend, applied in program order (lost and reordered writes: keeping an older
   write of a location while losing a newer one is one of the subsets).  Per location the surviving value is the
   durable one or the value of any single pending write, independently for every location, so the set of crash images
   is exactly the product of Poss(location) -- ProductFormExact below has TLC confirm that on the model.

   Program level (hidden from the device trace; model-checked here):
     cache    dirty entries of unix_io's write-back cache (at most one per location); over-approximated by
              nondeterministic write-back (WriteBack), which includes every LRU schedule of the 8-slot cache
     pc, i, todo   the front-end's position:  open -> check -> load -> replay -> sync -> release -> close -> reopen
              -> clear -> final -> done     (order as read from the pinned tree, see the action comments); with a journal
              device the journal's own channel is opened (jopen1..3: fsync of the journal device) before each of check, replay
              and clear, and closed (jclose1..3: write-back, no fsync) after each of check, release and clear
     image, crashes   the crash image a Crash produced; RunAgain starts the same front-end on it

   The replay plan (which blocks pass 3 writes, in which order) is CHOSEN IN Init among all plans of at most MaxPlan
   writes over Blocks, so TLC quantifies over journals as well as over crash points and lost-write subsets.  What a
   journal's plan is, and that replaying it gives Final, is property C03 (spec/Jbd2.tla); here the log is read-only
   (recovery never writes a log block: the trace spec rejects such a write) and RunAgainOf says: a run that finds
   s_start # 0 replays the whole plan again, a run that finds s_start = 0 replays nothing.

   Protocol constants -- TRUE is what the pinned tree does; FALSE is a wrong ordering that TLC must reject (vacuity
   guard of the check, and the design-level image of the mutants in mutants/C04_*.patch):
     SyncInRecover      jbd2_journal_recover() ends with sync_blockdev(journal->j_fs_dev)
     ReleaseAfterFlush  *_journal_release(reset = 1) (jsb.s_start = 0) runs after that flush, not before it
     FlushFsyncs        unix_flush() = flush_cached_blocks() + fsync()
     OpenFsyncs         unix_open_channel() fsyncs the descriptor ("throw away previous errors"); the protocol's
                        property-level invariants do NOT depend on it (checked with FALSE), only FlagAfterEmptyCrash does --
                        and, with a journal device, Done: the journal's channel is closed without fsync (jclose), so the release
                        is durable at the end of the run only through the fsync of the next open of the journal device
     SyncFsDev          sync_blockdev(journal->j_fs_dev) flushes the channel of the FILESYSTEM device (K_DEV_FS -> fs->io);
                        FALSE = it picks the journal device's channel instead (the same channel when the journal is internal) *)
EXTENDS Naturals, Integers, Sequences, FiniteSets, TLC

CONSTANTS Blocks, MaxPlan, MaxCrash, SyncInRecover, ReleaseAfterFlush, FlushFsyncs, OpenFsyncs, SyncFsDev,
          ExtChoices,       \* universe: subset of BOOLEAN, the values of ext explored (FALSE = internal journal, TRUE = journal device)
          DevErrorLostOnCrash,  \* named deviation (known finding): a FAILED recovery still empties the journal (s_start = 0, s_errno clear or
                            \* cleared again) before the failure is durable in the filesystem superblock's s_state; FALSE = repaired design:
                            \* the failure travels in jsb.s_errno with the release and is cleared only after s_state is durable
          DevSbPiecemeal    \* named deviation (known finding): ext2fs_flush -> write_primary_superblock() sends the changed 16-bit words of the
                            \* primary superblock as SEPARATE pwrites, the checksum word last; TRUE = what the pinned tree does

VARIABLES dur, pend,                        \* device level
          fin, legal, rfail, ext,           \* the universe: Final per block, versions the log holds per block, recovery of this log fails,
                                            \* the journal is on a device of its own
          plan, cache, pc, i, todo, failed, \* program level (failed: this run's jbd2_journal_recover returned an error)
          image, crashes
dvars == <<dur, pend>>
uvars == <<fin, legal, rfail, ext>>
pvars == <<plan, cache, pc, i, todo, failed, image, crashes>>
vars == <<dvars, uvars, pvars>>

Max(S) == CHOOSE m \in S : \A x \in S : x <= m
E(k, b, v) == [k |-> k, b |-> b, v |-> v]
NoImage == [blk |-> <<>>, jsb |-> -1, sb |-> -1, st |-> -1]

\* ------------------------------------------------------------------------------------------ devices
Devices == {"fs", "jnl"}
DevOf(k) == IF ext /\ k \in {"jsb", "log"} THEN "jnl" ELSE "fs"     \* the device a location lives on
JDev == DevOf("jsb")                                                \* the device that holds the journal
All == 1..Len(pend)
OnDev(d) == {n \in All : DevOf(pend[n].k) = d}                      \* the volatile write cache of device d
Idx(S, k, b) == {n \in S : pend[n].k = k /\ pend[n].b = b}
Val(S, k, b, d) == LET I == Idx(S, k, b) IN IF I = {} THEN d ELSE pend[Max(I)].v
\* stable storage after a crash in which exactly the pending writes with index in S reached the medium
ImageOf(S) == [blk |-> [b \in DOMAIN dur.blk |-> Val(S, "blk", b, dur.blk[b])],
               jsb |-> Val(S, "jsb", 0, dur.jsb), sb |-> Val(S, "sb", 0, dur.sb), st |-> Val(S, "st", 0, dur.st)]
Cur == ImageOf(All)                         \* what the program reads back (the OS page cache holds every write)
PossBlk(b) == {dur.blk[b]} \cup {pend[n].v : n \in Idx(All, "blk", b)}
PossJsb == {dur.jsb} \cup {pend[n].v : n \in Idx(All, "jsb", 0)}
PossSb  == {dur.sb} \cup {pend[n].v : n \in Idx(All, "sb", 0)}
PossSt  == {dur.st} \cup {pend[n].v : n \in Idx(All, "st", 0)}

PhaseOf(img) == IF img.jsb = 1 THEN "recover" ELSE IF img.sb = 1 THEN "released" ELSE "cleared"
Ph == PhaseOf(Cur)
\* what a recovery front-end may send to the device in which phase (anything else is not a behaviour of the protocol)
PhaseAllows(e) ==
   CASE e.k = "blk" -> Ph = "recover" /\ e.b \in DOMAIN legal /\ e.v \in legal[e.b]   \* ReplayWrite: only log content, only before the release
     [] e.k = "jsb" -> e.v \in {0, 1, 2} /\ (e.v = 1 => Ph = "recover")            \* s_start is never set back to non-zero
     [] e.k = "st"  -> e.v \in {0, 1}                                               \* the s_state word of the primary superblock
     [] e.k = "sb"  -> e.v \in {0, 1} /\ (e.v = 1 => Ph # "cleared")               \* the flag is never set again once cleared
     [] e.k = "sbp" -> TRUE                                                         \* a piece of the primary superblock not holding the flag
     [] OTHER -> FALSE                                                              \* e.g. a write into the log area
DevWrite(e) == /\ PhaseAllows(e) /\ pend' = Append(pend, e) /\ UNCHANGED dur
\* a COMPLETED fsync of device d: exactly the pending writes of d become durable, those of the other device stay volatile
NotOn(d, e) == DevOf(e.k) # d
DevFsync(d) == /\ dur' = ImageOf(OnDev(d)) /\ pend' = SelectSeq(pend, LAMBDA e : NotOn(d, e))

\* ------------------------------------------------------------------------------------------ the property
\* running recovery on image img to completion: replays iff the journal superblock still says "not empty"
FinSt == IF rfail THEN 1 ELSE 0
RunAgainOf(img) == [blk |-> IF img.jsb = 1 THEN fin ELSE img.blk, jsb |-> 0, sb |-> 0,
                    st |-> IF img.jsb = 1 THEN FinSt ELSE IF img.jsb = 2 THEN 1 ELSE img.st]    \* fails again / s_errno moved to s_state / as found
Complete(img) == img.blk = fin
\* I1  RunAgain(crash image) = Final of the uninterrupted run -- for every crash image of the current state
Idempotent == \A b \in DOMAIN dur.blk : (PossJsb \cap {0, 2} # {} => PossBlk(b) = {fin[b]})
\* the same, written out over the subsets (model checking only; pend is short there)
IdempotentSubsets == \A S \in SUBSET All : RunAgainOf(ImageOf(S)).blk = fin
\* I2  the journal is never marked empty on stable storage before every replayed block is durable -- ACROSS the two devices:
\*     whatever part A of the filesystem device's volatile cache and whatever part B of the journal device's survive together
NeverEmptyBeforeDurable == \A A \in SUBSET OnDev("fs") : \A B \in SUBSET OnDev("jnl") :
                              ImageOf(A \cup B).jsb # 1 => Complete(ImageOf(A \cup B))
\* the crash images are the product of what the two devices may each keep (and with one device there is one factor)
CrashImagesAreDeviceProduct == /\ OnDev("fs") \cup OnDev("jnl") = All /\ OnDev("fs") \cap OnDev("jnl") = {}
                               /\ (~ext => OnDev("jnl") = {})
                               /\ {ImageOf(S) : S \in SUBSET All} = {ImageOf(A \cup B) : A \in SUBSET OnDev("fs"), B \in SUBSET OnDev("jnl")}
\* I3  the filesystem keeps requesting recovery until then
KeepsRequesting == \A b \in DOMAIN dur.blk : (0 \in PossSb => PossBlk(b) = {fin[b]})
\* needs_recovery cleared durable => journal empty durable
FlagAfterEmpty == dur.sb = 0 => dur.jsb # 1
\* ... and on every crash image (holds because the flag is cleared after the re-open, and unix_open fsyncs)
FlagAfterEmptyCrash == 0 \in PossSb => 1 \notin PossJsb
\* a failed recovery is not forgotten: whatever survives a crash, running recovery again ends with the failure recorded in s_state
\* exactly when the uninterrupted run records it (an image whose journal is plainly empty must already carry it)
ErrorRemembered == (0 \in PossJsb => PossSt = {FinSt}) /\ (2 \in PossJsb => rfail)
ErrorRememberedSubsets == \A S \in SUBSET All : RunAgainOf(ImageOf(S)).st = FinSt
ErrorRememberedOrDev == DevErrorLostOnCrash \/ ErrorRemembered
\* the crash images are exactly the product of the per-location possibilities
BlkChoices == {g \in [DOMAIN dur.blk -> UNION {PossBlk(b) : b \in DOMAIN dur.blk}] : \A b \in DOMAIN dur.blk : g[b] \in PossBlk(b)}
ProductFormExact ==
   {ImageOf(S) : S \in SUBSET All} = {[blk |-> f, jsb |-> j, sb |-> s, st |-> t] : f \in BlkChoices, j \in PossJsb, s \in PossSb, t \in PossSt}
\* the primary superblock is updated atomically: no crash image holds a strict part of one update (its checksum would not match
\* and no front-end could open the filesystem to run recovery again)
\* (the s_state word "st" is kept a separate location even when the superblock is written in one piece: that only adds crash images)
SbIsh == {n \in All : pend[n].k \in {"sb", "sbp"}}
Torn(S) == \E n \in S \cap SbIsh : \E m \in SbIsh \ S : TRUE
SbAtomic == \A S \in SUBSET All : ~Torn(S)
SbAtomicOrDev == DevSbPiecemeal \/ Cardinality(SbIsh) <= 1
\* a finished run has everything on every crash image (idempotent rewrites may still be pending)
\* (external journal: the last rewrite of the already empty journal superblock -- s_sequence, a cleared s_errno -- is written back when
\* the journal's channel is closed and no fsync of the journal device follows; the journal is empty on every crash image either way)
Finished == (IF ext THEN 1 \notin PossJsb ELSE PossJsb = {0}) /\ PossSb = {0} /\ (DevErrorLostOnCrash \/ PossSt = {FinSt}) /\ \A b \in DOMAIN dur.blk : PossBlk(b) = {fin[b]}
Done == pc = "done" => Finished
CrashedIdempotent == pc = "crashed" => RunAgainOf(image).blk = fin /\ (DevErrorLostOnCrash \/ RunAgainOf(image).st = FinSt)

\* ------------------------------------------------------------------------------------------ program
SameLoc(x, e) == x.k = e.k /\ x.b = e.b
Logical(e) == cache' = {x \in cache : ~SameLoc(x, e)} \cup {e}          \* io_channel_write_blk64 into the cache of the location's channel
CacheOn(d) == {x \in cache : DevOf(x.k) = d}                            \* dirty entries of the unix_io channel opened on device d
Running == pc \notin {"crashed", "done"}
WriteBack == /\ Running /\ \E e \in cache : DevWrite(e) /\ cache' = cache \ {e}     \* eviction / flush_cached_blocks of one entry
             /\ UNCHANGED <<uvars, plan, pc, i, todo, failed, image, crashes>>
Step(next) == pc' = next /\ UNCHANGED <<uvars, plan, i, todo, failed, image, crashes>>
Quiet == UNCHANGED dvars
\* unix_flush on the channel of device d: every dirty entry of THAT channel written back (by WriteBack steps), then fsync of
\* THAT device unless the mutant skips it
Flush(d, next) == /\ CacheOn(d) = {} /\ (IF FlushFsyncs THEN DevFsync(d) ELSE Quiet) /\ UNCHANGED cache /\ Step(next)
\* steps that exist only when the journal has a channel of its own
ViaJ(pj, p) == IF ext THEN pj ELSE p

\* ext2fs_open -> unix_open on the filesystem device.  e2fsck goes on to e2fsck_check_ext3_journal (jopen1, check, jclose1);
\* debugfs jr starts recovery at once
Open    == /\ pc = "open" /\ (IF OpenFsyncs THEN DevFsync("fs") ELSE Quiet) /\ UNCHANGED cache
           /\ \E nx \in (IF ext THEN {"jopen1", "load"} ELSE {"check"}) : Step(nx)
\* *_get_journal with an external journal: unix_open(journal_name) -> a channel of its own on the journal device (fsync of THAT device)
AfterRelease == IF ~ReleaseAfterFlush /\ SyncInRecover THEN "sync" ELSE "close"
JOpenAt == [jopen1 |-> "check", jopen2 |-> "replay", jopen3 |-> "clear"]
JOpen   == /\ pc \in DOMAIN JOpenAt /\ (IF OpenFsyncs THEN DevFsync("jnl") ELSE Quiet) /\ UNCHANGED cache /\ Step(JOpenAt[pc])
\* *_journal_release with an external journal: io_channel_close(journal_io) -> unix_close: write-back of that channel, NO fsync
JCloseAt == [jclose1 |-> "load", jclose2 |-> AfterRelease, jclose3 |-> "final"]
JClose  == /\ pc \in DOMAIN JCloseAt /\ CacheOn("jnl") = {} /\ Quiet /\ UNCHANGED cache /\ Step(JCloseAt[pc])
\* e2fsck_check_ext3_journal -> e2fsck_journal_release(reset = 0): rewrites the journal superblock as it is (e2fsck only);
\* journal not empty but flag clear (only a crash image of a wrong protocol): e2fsck sets the flag again, debugfs does not care
CheckJsb == /\ pc = "check" /\ Quiet
            /\ \/ Logical(E("jsb", 0, Cur.jsb)) \/ UNCHANGED cache
               \/ (Cur.jsb = 1 /\ Cur.sb = 0 /\ Logical(E("sb", 0, 1)))
            /\ Step(ViaJ("jclose1", "load"))
\* nothing to do at all: journal empty and flag clear
Load    == /\ pc = "load" /\ Quiet /\ UNCHANGED cache
           /\ todo' = (IF Cur.jsb = 1 THEN plan ELSE <<>>)                \* jbd2_journal_recover: if (!sb->s_start) return 0
           /\ failed' = (Cur.jsb = 1 /\ rfail)                          \* the same log fails the same way every time
           /\ i' = 1 /\ pc' = (IF Cur.jsb = 0 /\ Cur.sb = 0 THEN "final" ELSE ViaJ("jopen2", "replay"))
           /\ UNCHANGED <<uvars, plan, image, crashes>>
\* do_one_pass(PASS_REPLAY): one logged block copied to its home location on the filesystem device (through fs->io's cache)
ReplayWrite == /\ pc = "replay" /\ i <= Len(todo) /\ Quiet /\ Logical(E("blk", todo[i][1], todo[i][2])) /\ i' = i + 1
               /\ UNCHANGED <<uvars, plan, pc, todo, failed, image, crashes>>
EndReplay == /\ pc = "replay" /\ i > Len(todo) /\ Quiet /\ UNCHANGED cache
             /\ Step(IF ~ReleaseAfterFlush THEN "release" ELSE IF SyncInRecover THEN "sync" ELSE "release")
\* sync_blockdev(journal->j_fs_dev) -> io_channel_flush of the channel sync_blockdev picks for that kdev
SyncFs  == pc = "sync" /\ Flush(IF SyncFsDev THEN "fs" ELSE JDev, IF ReleaseAfterFlush THEN "release" ELSE "close")
\* jsb->s_start = 0; brelse -- even after a failed recovery (errout: still release(reset = 1)); s_errno is kept as found,
\* and in the repaired design set when this run failed.  The write goes to the journal's channel, which an external journal
\* then closes (jclose2)
JsbRelease == /\ pc = "release" /\ Quiet
              /\ Logical(E("jsb", 0, IF Cur.jsb = 2 \/ (failed /\ ~DevErrorLostOnCrash) THEN 2 ELSE 0))
              /\ Step(ViaJ("jclose2", AfterRelease))
CloseFs == /\ pc = "close" /\ cache = {} /\ Quiet /\ UNCHANGED cache /\ Step("reopen")   \* ext2fs_free -> unix_close: write-back, no fsync
\* ext2fs_open again (fsync of the filesystem device); *_clear_recover changes the superblock in memory only, *_check_ext3_journal
\* opens the journal again (jopen3: fsync of the journal device) before anything of that reaches a channel
Reopen  == /\ pc = "reopen" /\ (IF OpenFsyncs THEN DevFsync("fs") ELSE Quiet) /\ UNCHANGED cache /\ Step(ViaJ("jopen3", "clear"))
\* *_clear_recover + the check's release(reset = 0) + ext2fs_flush: flag cleared, journal superblock rewritten (order free)
ClearRecover == /\ pc = "clear" /\ Quiet
                /\ LET err    == failed \/ Cur.jsb = 2           \* *_clear_recover(error) / s_errno found by *_check_ext3_journal
                       pieces == (IF DevSbPiecemeal THEN {E("sb", 0, 0), E("sbp", 0, 0)} ELSE {E("sb", 0, 0)})
                                 \cup (IF err THEN {E("st", 0, 1)} ELSE {})
                       keep   == {x \in cache : x.k \notin {"sb", "sbp", "st"}}
                   IN IF Cur.jsb = 2 /\ ~DevErrorLostOnCrash
                      THEN cache' = keep \cup pieces /\ Step("errflush")          \* s_state first, s_errno cleared after the flush
                      ELSE /\ \/ cache' = {x \in keep : x.k # "jsb"} \cup pieces \cup {E("jsb", 0, 0)}
                              \/ (Cur.jsb # 2 /\ cache' = keep \cup pieces)
                           /\ Step(ViaJ("jclose3", "final"))
ErrFlush == pc = "errflush" /\ Flush("fs", "errclear")
ErrClear == /\ pc = "errclear" /\ Quiet /\ Logical(E("jsb", 0, 0)) /\ Step(ViaJ("jclose3", "final"))
FinalFlush == pc = "final" /\ Flush("fs", "done")                                          \* ext2fs_close -> ext2fs_flush -> io_channel_flush(fs->io)

Crash == /\ Running /\ crashes < MaxCrash
         /\ \E S \in SUBSET All : image' = ImageOf(S)
         /\ pc' = "crashed" /\ UNCHANGED <<dvars, uvars, plan, cache, i, todo, failed, crashes>>
RunAgain == /\ pc = "crashed"
            /\ dur' = image /\ pend' = <<>>
            /\ cache' = {} /\ pc' = "open" /\ i' = 1 /\ todo' = <<>> /\ failed' = FALSE /\ image' = NoImage /\ crashes' = crashes + 1
            /\ UNCHANGED <<uvars, plan>>

\* ------------------------------------------------------------------------------------------ universe
\* plans: n writes, write number n gives its block the fresh version n (a block may be logged by several transactions)
Plans == UNION {{[n \in 1..len |-> <<f[n], n>>] : f \in [1..len -> Blocks]} : len \in 0..MaxPlan}
FinalOfPlan(p) == [b \in Blocks |-> LET I == {n \in 1..Len(p) : p[n][1] = b} IN IF I = {} THEN 0 ELSE p[Max(I)][2]]
LegalOfPlan(p) == [b \in Blocks |-> {p[n][2] : n \in {m \in 1..Len(p) : p[m][1] = b}}]

Init == /\ plan \in Plans
        /\ fin = FinalOfPlan(plan) /\ legal = LegalOfPlan(plan) /\ rfail \in BOOLEAN /\ ext \in ExtChoices
        /\ dur = [blk |-> [b \in Blocks |-> 0], jsb |-> 1, sb |-> 1, st |-> 0] /\ pend = <<>>
        /\ cache = {} /\ pc = "open" /\ i = 1 /\ todo = <<>> /\ failed = FALSE /\ image = NoImage /\ crashes = 0
Next == \/ Open \/ JOpen \/ JClose \/ CheckJsb \/ Load \/ ReplayWrite \/ EndReplay \/ SyncFs \/ JsbRelease \/ CloseFs \/ Reopen
        \/ ClearRecover \/ ErrFlush \/ ErrClear \/ FinalFlush \/ WriteBack \/ Crash \/ RunAgain
Spec == Init /\ [][Next]_vars

TypeOK == /\ pc \in {"open", "check", "load", "replay", "sync", "release", "close", "reopen", "clear", "errflush", "errclear", "final", "done", "crashed", "trace",
                  "jopen1", "jopen2", "jopen3", "jclose1", "jclose2", "jclose3"}
          /\ ext \in BOOLEAN /\ (~ext => pc \notin (DOMAIN JOpenAt \cup DOMAIN JCloseAt))
          /\ dur.jsb \in {0, 1, 2} /\ dur.sb \in {0, 1} /\ dur.st \in {0, 1} /\ crashes \in 0..MaxCrash
          /\ \A x \in cache : \A y \in cache : SameLoc(x, y) => x = y
\* the program never asks the device for something the device-level protocol (PhaseAllows) forbids: every dirty cache
\* entry can be written back.  (A disabled WriteBack would silently prune behaviours instead of failing.)
NoBlockedWrite == Running => \A e \in cache : PhaseAllows(e)
=============================================================================
