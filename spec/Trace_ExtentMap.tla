-------------------------- MODULE Trace_ExtentMap --------------------------
(* Conformance of lib/ext2fs/extent.c ext2fs_extent_set_bmap() and punch.c ext2fs_punch_extent() with ExtentMap.
   harness/filedrv.c issues the calls on a real inode and logs, after every call, the list of leaf extents walked with
   the public ext2fs_extent_get() API, and for a punch also the mapped logical ranges before / after and the comparison
   of the block bitmap with the blocks the inode owns.  Every line must be the ExtentMap transition; `seen` collects the
   transition classes exercised (vacuity guard of checks/c09.py).                                                      *)
EXTENDS ExtentMap, Json, IOUtils
VARIABLES l, seen
tvars == <<evars, l, seen>>
Tr == ndJsonDeserialize(IOEnv.TRACE)
ToExt(q) == [i \in 1 .. Len(q) |-> [l |-> q[i][1], len |-> q[i][2], p |-> q[i][3], u |-> q[i][4] = 1]]
RangeSet(q) == UNION {q[i][1] .. q[i][2] : i \in 1 .. Len(q)}
IsEvent(e) == l <= Len(Tr) /\ Tr[l].e = e /\ l' = l + 1

\* transition class of SetBmap(x, L, P, u) -- the branch of the C code that is taken
ClassOf(x, L, P, u) ==
   IF Len(x) = 0 THEN "empty-insert" ELSE
   LET mapped == Containing(x, L) # {}   c == Cur(x, L)   cur == x[c]
       hasn == c < Len(x)   hasp == c > 1
       nx == IF hasn THEN x[c + 1] ELSE cur   pv == IF hasp THEN x[c - 1] ELSE cur
       uu == IF u THEN "-uninit" ELSE ""
   IN IF mapped /\ u = cur.u /\ cur.p + (L - cur.l) = P THEN "unchanged"
      ELSE IF ~mapped THEN
         IF P = 0 THEN "already-unmapped"
         ELSE IF L = End(cur) /\ P = cur.p + cur.len /\ u = cur.u /\ cur.len < MAXLEN(u) - 1 THEN "append" \o uu
         ELSE IF L + 1 = cur.l /\ P + 1 = cur.p /\ u = cur.u /\ cur.len < MAXLEN(u) - 1 THEN "prepend" \o uu
         ELSE IF hasn /\ L + 1 = nx.l /\ P + 1 = nx.p /\ u = nx.u /\ nx.len < MAXLEN(u) - 1 THEN "prepend-next" \o uu
         ELSE IF L < cur.l THEN "insert-before" ELSE "insert-after"
      ELSE IF L = cur.l /\ cur.len = 1 THEN (IF P # 0 THEN "single-replace" ELSE "single-delete")
      ELSE IF L = End(cur) - 1 THEN
         IF P = 0 THEN "last-unmap"
         ELSE IF hasn /\ L + 1 = nx.l /\ P + 1 = nx.p /\ u = nx.u /\ nx.len < MAXLEN(u) - 1 THEN "last-remap-merge-next"
         ELSE "last-remap-insert"
      ELSE IF L = cur.l THEN
         IF P = 0 THEN "first-unmap"
         ELSE IF hasp /\ L = End(pv) /\ P = pv.p + pv.len /\ u = pv.u /\ pv.len < MAXLEN(u) - 1 THEN "first-remap-merge-prev"
         ELSE "first-remap-insert"
      ELSE IF P = 0 THEN "middle-unmap" ELSE "middle-remap"
\* classes of a punch: which cases of the loop were taken
PunchClasses(x, s, e) ==
   {"punch"} \cup
   UNION { LET ex == x[i] IN
           IF ~(ex.l <= e /\ s < End(ex)) THEN {}
           ELSE IF s <= ex.l THEN (IF End(ex) > e + 1 THEN {"punch-front"} ELSE {"punch-whole"})
           ELSE IF e >= End(ex) - 1 THEN {"punch-tail"} ELSE {"punch-split"}
         : i \in 1 .. Len(x) }
   \cup (IF Len(x) > 0 /\ Containing(x, s) = {} THEN {"punch-start-in-hole"} ELSE {})
   \cup (IF e = Inf THEN {"punch-truncate"} ELSE {})
Depth(n) == IF n > 4 THEN {"leaf-block"} ELSE {}

TReset == /\ IsEvent("xreset") /\ ext' = <<>> /\ prev' = <<>> /\ freed' = {}
          /\ op' = [e |-> "init", l |-> 0, p |-> 0, u |-> FALSE, s |-> 0, en |-> 0] /\ UNCHANGED seen
TSet == /\ IsEvent("xset") /\ Tr[l].ret = 0
        /\ LET L == Tr[l].l   P == Tr[l].p   u == Tr[l].u = 1 IN
           /\ ~(Len(ext) = 0 /\ P = 0)
           /\ ext' = SetBmap(ext, L, P, u) /\ prev' = ext /\ freed' = {}
           /\ op' = [e |-> "set", l |-> L, p |-> P, u |-> u, s |-> 0, en |-> 0]
           /\ seen' = seen \cup {ClassOf(ext, L, P, u)} \cup Depth(Len(ext'))
        /\ ToExt(Tr[l].ext) = ext'
\* take the extent list as the driver found it (after file writes / fallocate populated the file)
TDump == /\ IsEvent("xdump") /\ ext' = ToExt(Tr[l].ext) /\ prev' = ext' /\ freed' = {}
         /\ op' = [e |-> "init", l |-> 0, p |-> 0, u |-> FALSE, s |-> 0, en |-> 0] /\ UNCHANGED seen
TPunch == /\ IsEvent("xpunch") /\ Tr[l].ret = 0
          /\ LET s == Tr[l].s   e == IF Tr[l].en < 0 THEN Inf ELSE Tr[l].en
                 r == PunchExt(ext, s, e) IN
             /\ ext' = r.x /\ freed' = r.freed /\ prev' = ext
             /\ op' = [e |-> "punch", l |-> 0, p |-> 0, u |-> FALSE, s |-> s, en |-> e]
             /\ seen' = seen \cup PunchClasses(ext, s, e)
             /\ RangeSet(Tr[l].before) = DOMAIN MapOf(ext)
             /\ RangeSet(Tr[l].after) = DOMAIN MapOf(r.x)
             \* blocks (clusters) given back to the bitmap = what the transcription frees (+ emptied tree nodes, which only
             \* exist once the tree has depth > 0; then the driver's own owned-before/after comparison is the check)
             /\ (Tr[l].depth0 = 0 => Tr[l].freed_bitmap = C * Cardinality(r.freed))
          /\ ToExt(Tr[l].ext) = ext'
          /\ Tr[l].freed_ok = 1

TraceInit == EInit /\ l = 1 /\ seen = {}
TraceNext == TReset \/ TSet \/ TDump \/ TPunch
TraceSpec == TraceInit /\ [][TraceNext]_tvars
TraceAccepted == /\ TLCGet("stats").diameter - 1 = Len(Tr)
                 /\ PrintT(<<"CLASSES", TLCGet(1)>>)
\* TLC evaluates the postcondition outside any state: the classes are mirrored into register 1 by this constraint
Record == TLCSet(1, seen)
=============================================================================
