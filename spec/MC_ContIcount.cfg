SPECIFICATION IcSpec
CONSTANTS
  IcGrow = 1
  IcCap = 3
  IcU16 = 4
  IcMaxCount = 5
  IcSlackMax = 0
  IcModes = {0, 1, 2}
  IcMaxN = 3
  IcInitSizes = {1, 2}
INVARIANT IcStructural
INVARIANT IcRefines
INVARIANT IcRefinesFast
INVARIANT IcResultsAgree
CHECK_DEADLOCK FALSE
