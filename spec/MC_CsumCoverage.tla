-------------------------- MODULE MC_CsumCoverage --------------------------
(* Walks every byte offset of a representative object of every type and checks the coverage function against
   properties the format guarantees: the checksum field is never covered, covered bytes lie inside the object, and the
   number of covered bytes equals the length the checksum is computed over.                                         *)
EXTENDS CsumCoverage, FiniteSets, Sequences
VARIABLES k, off, ncov

Obj(t, isize, hi, dsize, nbytes, ehmax, bs, coff, count, tail) ==
   [type |-> t, isize |-> isize, hi |-> hi, dsize |-> dsize, nbytes |-> nbytes, ehmax |-> ehmax, bs |-> bs, coff |-> coff, count |-> count, tail |-> tail]
Objs == << Obj("sb", 0, 0, 0, 0, 0, 1024, 0, 0, 0),
           Obj("gd", 0, 0, 32, 0, 0, 1024, 0, 0, 0), Obj("gd", 0, 0, 64, 0, 0, 1024, 0, 0, 0), Obj("gd", 0, 0, 128, 0, 0, 1024, 0, 0, 0),
           Obj("bb", 0, 0, 64, 256, 0, 1024, 0, 0, 0), Obj("ib", 0, 0, 32, 32, 0, 1024, 0, 0, 0), Obj("bb", 0, 0, 64, 4096, 0, 4096, 0, 0, 0),
           Obj("bb", 0, 0, 128, 128, 0, 1024, 0, 0, 0), Obj("ib", 0, 0, 128, 6, 0, 1024, 0, 0, 0),
           Obj("inode", 128, 0, 0, 0, 0, 1024, 0, 0, 0), Obj("inode", 256, 1, 0, 0, 0, 1024, 0, 0, 0), Obj("inode", 256, 0, 0, 0, 0, 1024, 0, 0, 0),
           Obj("inode", 512, 1, 0, 0, 0, 1024, 0, 0, 0),
           Obj("extblk", 0, 0, 0, 0, 84, 1024, 0, 0, 0), Obj("extblk", 0, 0, 0, 0, 340, 4096, 0, 0, 0),
           Obj("dirleaf", 0, 0, 0, 0, 0, 1024, 0, 0, 0), Obj("dirleaf", 0, 0, 0, 0, 0, 4096, 0, 0, 0),
           Obj("dxnode", 0, 0, 0, 0, 0, 1024, 32, 5, 1016), Obj("dxnode", 0, 0, 0, 0, 0, 1024, 8, 126, 1016), Obj("dxnode", 0, 0, 0, 0, 0, 4096, 8, 1, 4088),
           Obj("xblk", 0, 0, 0, 0, 0, 1024, 0, 0, 0), Obj("mmp", 0, 0, 0, 0, 0, 1024, 0, 0, 0), Obj("jsb", 0, 0, 0, 0, 0, 1024, 0, 0, 0) >>

\* bytes the format's checksum is computed over
CsumLen(r) ==
   CASE r.type = "sb" -> 1020
     [] r.type = "gd" -> r.dsize - 2
     [] r.type \in {"bb", "ib"} -> r.nbytes
     [] r.type = "inode" -> r.isize - 2 - (IF r.hi = 1 THEN 2 ELSE 0)
     [] r.type = "extblk" -> 12 + 12 * r.ehmax
     [] r.type = "dirleaf" -> r.bs - 12
     [] r.type = "dxnode" -> r.coff + 8 * r.count + 4
     [] r.type = "xblk" -> r.bs - 4
     [] r.type = "mmp" -> 1020
     [] r.type = "jsb" -> 1020

Init == k = 1 /\ off = 0 /\ ncov = 0
Next == /\ k <= Len(Objs)
        /\ IF off < ObjSize(Objs[k]) + 8
           THEN /\ off' = off + 1 /\ k' = k
                /\ ncov' = ncov + (IF Covered(Objs[k], off) THEN 1 ELSE 0)
           ELSE /\ off' = 0 /\ k' = k + 1 /\ ncov' = 0
Spec == Init /\ [][Next]_<<k, off, ncov>>

FieldNotCovered == k <= Len(Objs) => \A o \in CsumField(Objs[k]) : ~Covered(Objs[k], o)
InsideObject    == k <= Len(Objs) /\ off > 0 => (Covered(Objs[k], off - 1) => off - 1 < ObjSize(Objs[k]))
FieldInside     == k <= Len(Objs) => \A o \in CsumField(Objs[k]) : o >= 0 /\ o < ObjSize(Objs[k])
CountExact      == k <= Len(Objs) /\ off = ObjSize(Objs[k]) + 8 => ncov = CsumLen(Objs[k])
=============================================================================
