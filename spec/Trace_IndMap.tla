---------------------------- MODULE Trace_IndMap ----------------------------
(* Conformance of lib/ext2fs/punch.c ext2fs_punch_ind() / ind_punch() with IndMap at the REAL format constants
   (ND = 12, A = blocksize / 4).  For every ext2fs_punch() on a block-mapped file harness/filedrv.c logs the mapped logical
   ranges before and after (ext2fs_block_iterate3) and compares the block bitmap with the blocks the inode owns before /
   after (data and indirect blocks).  The set that leaves the map must be what the transcription computes.             *)
EXTENDS IndMap, Sequences, Json, IOUtils
VARIABLES l
tvars == <<ivars, l>>
Tr == ndJsonDeserialize(IOEnv.TRACE)
RangeSet(q) == UNION {q[i][1] .. q[i][2] : i \in 1 .. Len(q)}
IsEvent(e) == l <= Len(Tr) /\ Tr[l].e = e /\ l' = l + 1
TReset == /\ IsEvent("breset") /\ map' = RangeSet(Tr[l].map) /\ prev' = map' /\ freed' = {} /\ last' = <<Total, Total>> /\ n' = 0
TPunch == /\ IsEvent("bpunch") /\ Tr[l].ret = 0
          /\ LET s == Tr[l].s   e == IF Tr[l].en < 0 THEN Inf ELSE Tr[l].en IN
             /\ RangeSet(Tr[l].before) = map
             /\ map' = map \ Punched(map, s, e) /\ freed' = Punched(map, s, e) /\ prev' = map /\ last' = <<s, e>> /\ n' = n + 1
          /\ RangeSet(Tr[l].after) = map'
          /\ Tr[l].freed_ok = 1
TraceInit == map = {} /\ prev = {} /\ freed = {} /\ last = <<Total, Total>> /\ n = 0 /\ l = 1
TraceNext == TReset \/ TPunch
TraceSpec == TraceInit /\ [][TraceNext]_tvars
TraceAccepted == TLCGet("stats").diameter - 1 = Len(Tr)
=============================================================================
