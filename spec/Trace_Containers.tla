-------------------------- MODULE Trace_Containers --------------------------
(* Trace validation for the containers: every line harness/contdrv.c logs (call, arguments, result, the private
   arrays after the call, and what the public API shows afterwards: fetch of every key, enumeration order, test of
   every value) must be the step the container's module takes, and the invariants of Containers (Structural,
   Refines, ResultsAgree) are evaluated after every line.  A behaviour starts with a reset line naming the container
   and its creation parameters; the constants are the real ones (500/100, 100, 200/100, 10/100).              *)
EXTENDS Containers, Json, IOUtils
VARIABLES l
tvars == <<cVars, l>>
Tr == ndJsonDeserialize(IOEnv.TRACE)
Ln == Tr[l]

Pairs(q) == [i \in 1..Len(q) |-> <<q[i][1], q[i][2]>>]
Quads(q) == [i \in 1..Len(q) |-> <<q[i][1], q[i][2], q[i][3], q[i][4]>>]
Nums(q) == [i \in 1..Len(q) |-> q[i]]
PairSet(q) == {<<q[i][1], q[i][2]>> : i \in 1..Len(q)}
NumSet(q) == {q[i] : i \in 1..Len(q)}
Holds(p) == p = TRUE                      \* evaluated as one value: no branching on the disjunctions inside
IsEvent(e) == l <= Len(Tr) /\ Ln.e = e /\ l' = l + 1

\* ------------------------------------------------------------ idle values (containers that are not the subject)
RcIdleP == rcList' = <<>> /\ rcSize' = 1 /\ rcCursor' = 0 /\ rcRef' = [k \in 1..1 |-> 0] /\ rcRes' = RcR("init", RcRV(OK, -1), RcRV(OK, -1))
IcIdleP == /\ icMode' = 0 /\ icN' = 1 /\ icSingle' = {} /\ icMulti' = {} /\ icList' = <<>> /\ icSize' = 1 /\ icCursor' = 0 /\ icLast' = 0
           /\ icFull' = [i \in 1..1 |-> 0] /\ icRef' = [i \in 1..1 |-> 0] /\ icRes' = IcR("init", IcRV(OK, -1), IcRV(OK, -1))
DbIdleP == dbList' = <<>> /\ dbSize' = 1 /\ dbSorted' = 1 /\ dbBag' = EmptyBag /\ dbTotal' = 0 /\ dbRes' = DbR("init", <<OK>>, <<OK>>)
BbIdleP == bbList' = <<>> /\ bbSize' = 1 /\ bbSet' = {} /\ bbRes' = BbR("init", <<OK>>, <<OK>>)
RgIdleP == rgList' = <<>> /\ rgLast' = 0 /\ rgSet' = {} /\ rgRes' = RgR("init", <<0>>, <<0>>) /\ rgMin' = 0 /\ rgMax' = 0

\* ------------------------------------------------------------ reset: the creation call
TReset ==
   /\ IsEvent("reset")
   /\ cWhich' = Ln.c
   /\ IF Ln.c = "rc" THEN /\ rcList' = <<>> /\ rcSize' = Ln.size /\ rcCursor' = 0 /\ rcRef' = [k \in 1..Ln.maxkey |-> 0]
                          /\ rcRes' = RcR("init", RcRV(OK, -1), RcRV(OK, -1))
                          /\ Holds(Ln.list = <<>> /\ Ln.cur = 0 /\ Ln.obs = <<>> /\ Ln.it = <<>>)
      ELSE RcIdleP
   /\ IF Ln.c = "ic" THEN /\ icMode' = Ln.mode /\ icN' = Ln.n /\ icSingle' = {} /\ icMulti' = {} /\ icList' = <<>>
                          /\ icSize' = Ln.size /\ icCursor' = 0 /\ icLast' = 0
                          /\ icFull' = [i \in 1..Ln.n |-> 0] /\ icRef' = [i \in 1..Ln.n |-> 0]
                          /\ icRes' = IcR("init", IcRV(OK, -1), IcRV(OK, -1))
                          /\ Holds(Ln.list = <<>> /\ Ln.single = <<>> /\ Ln.multi = <<>> /\ Ln.full = <<>> /\ Ln.obs = <<>> /\ Ln.cur = 0)
                          /\ Holds(Ln.mode = 2 => Ln.size = 0)
      ELSE IcIdleP
   /\ IF Ln.c = "db" THEN /\ dbList' = <<>> /\ dbSize' = Ln.size /\ dbSorted' = 1 /\ dbBag' = EmptyBag /\ dbTotal' = 0
                          /\ dbRes' = DbR("init", <<OK>>, <<OK>>)
                          /\ Holds(Ln.size = 2 * Ln.ndirs + 12 /\ Ln.sorted = 1 /\ Ln.list = <<>> /\ Ln.cnt = 0)
      ELSE DbIdleP
   /\ IF Ln.c = "bb" THEN /\ bbList' = <<>> /\ bbSize' = Ln.size /\ bbSet' = {} /\ bbRes' = BbR("init", <<OK>>, <<OK>>)
                          /\ Holds(Ln.list = <<>> /\ Ln.obs = <<>> /\ Ln.it = <<>> /\ Ln.cnt = 0)
      ELSE BbIdleP
   /\ IF Ln.c = "rg" THEN /\ rgList' = <<>> /\ rgLast' = 0 /\ rgSet' = {} /\ rgRes' = RgR("init", <<0>>, <<0>>)
                          /\ rgMin' = Ln.min /\ rgMax' = Ln.max
                          /\ Holds(Ln.list = <<>> /\ Ln.last = 0)
      ELSE RgIdleP

KeepRc == UNCHANGED <<cWhich, icVars, dbVars, bbVars, rgVars>>
KeepIc == UNCHANGED <<cWhich, rcVars, dbVars, bbVars, rgVars>>
KeepDb == UNCHANGED <<cWhich, rcVars, icVars, bbVars, rgVars>>
KeepBb == UNCHANGED <<cWhich, rcVars, icVars, dbVars, rgVars>>
KeepRg == UNCHANGED <<cWhich, rcVars, icVars, dbVars, bbVars>>

\* ------------------------------------------------------------ rc
RcLogged == /\ rcList' = Pairs(Ln.list) /\ rcSize' = Ln.size /\ rcCursor' = Ln.cur
            /\ Holds(PairSet(Ln.obs) = CmPairs(rcRef'))                      \* fetch of every key
            /\ Holds(AscendingEnumOf(Pairs(Ln.it), CmPairs(rcRef')))         \* enumeration
RcRet == rcRes'.impl = <<Ln.err, Ln.val>>
TRcFetch == IsEvent("rc_fetch") /\ RcFetch(Ln.k) /\ RcLogged /\ RcRet /\ KeepRc
TRcInc   == IsEvent("rc_inc") /\ RcIncrement(Ln.k) /\ RcLogged /\ RcRet /\ KeepRc
TRcDec   == IsEvent("rc_dec") /\ RcDecrement(Ln.k) /\ RcLogged /\ RcRet /\ KeepRc
TRcStore == IsEvent("rc_store") /\ RcStore(Ln.k, Ln.v) /\ RcLogged /\ RcRet /\ KeepRc
TRcIter  == IsEvent("rc_iter") /\ RcIterate /\ RcLogged /\ rcRes'.impl = Pairs(Ln.res) /\ KeepRc

\* ------------------------------------------------------------ ic
IcLogged == /\ icList' = Pairs(Ln.list) /\ icSize' = Ln.size /\ icCursor' = Ln.cur /\ icLast' = Ln.last
            /\ icSingle' = NumSet(Ln.single) /\ icMulti' = NumSet(Ln.multi) /\ icMode' = Ln.mode
            /\ Holds(PairSet(Ln.full) = {<<i, icFull'[i]>> : i \in {j \in 1..icN : icFull'[j] # 0}})
            /\ Holds(PairSet(Ln.obs) = {<<i, IcXl(icRef'[i])>> : i \in CmSupport(icRef')})      \* fetch of every inode
            /\ Holds(Ln.valid = 1 /\ Ln.n = icN)
IcRet == icRes'.impl = <<Ln.err, Ln.val>>
TIcFetch == IsEvent("ic_fetch") /\ IcFetch(Ln.k) /\ IcLogged /\ IcRet /\ KeepIc
TIcInc   == IsEvent("ic_inc") /\ IcIncrement(Ln.k) /\ IcLogged /\ IcRet /\ KeepIc
TIcDec   == IsEvent("ic_dec") /\ IcDecrement(Ln.k) /\ IcLogged /\ IcRet /\ KeepIc
TIcStore == IsEvent("ic_store") /\ IcStore(Ln.k, Ln.v) /\ IcLogged /\ IcRet /\ KeepIc
TIcRecreate == IsEvent("ic_recreate") /\ IcRecreate(Ln.k, Ln.v) /\ IcLogged /\ KeepIc

\* ------------------------------------------------------------ db
DbLogged == /\ dbList' = Quads(Ln.list) /\ dbSize' = Ln.size
            /\ Holds((dbSorted' # 0) = (Ln.sorted = 1))
            /\ Holds(Ln.cnt = dbTotal')
TDbAdd  == IsEvent("db_add") /\ DbAdd(Ln.a, Ln.bh, Ln.bl, Ln.c) /\ DbLogged /\ dbRes'.impl = <<Ln.err>> /\ KeepDb
TDbSet  == IsEvent("db_set") /\ DbSet(Ln.a, Ln.bh, Ln.bl, Ln.c) /\ DbLogged /\ dbRes'.impl = <<Ln.err>> /\ KeepDb
TDbSort == IsEvent("db_sort") /\ DbSort(Ln.a # 0) /\ DbLogged /\ KeepDb
TDbIter == IsEvent("db_iter") /\ DbIterate(Ln.a, Ln.b) /\ DbLogged /\ dbRes'.impl = Quads(Ln.res) /\ Holds(Ln.err = 0) /\ KeepDb
TDbIter32 == IsEvent("db_iter32") /\ DbIterate(0, Len(dbList)) /\ DbLogged /\ dbRes'.impl = Quads(Ln.res) /\ Holds(Ln.err = 0) /\ KeepDb
TDbCount == IsEvent("db_count") /\ DbCount /\ DbLogged /\ dbRes'.impl = Nums(Ln.res) /\ KeepDb
TDbLast == IsEvent("db_last") /\ DbGetLast /\ DbLogged /\ dbRes'.impl = <<Ln.err>> \o Nums(Ln.res) /\ KeepDb
TDbDrop == IsEvent("db_drop") /\ DbDropLast /\ DbLogged /\ dbRes'.impl = <<Ln.err>> /\ KeepDb
TDbCopy == IsEvent("db_copy") /\ DbCopy /\ DbLogged /\ KeepDb

\* ------------------------------------------------------------ bb
BbLogged == /\ bbList' = Nums(Ln.list) /\ bbSize' = Ln.size
            /\ Holds(NumSet(Ln.obs) = bbSet')                                 \* test of every value
            /\ Holds(StrictlyAscending(Ln.it) /\ NumSet(Ln.it) = bbSet')      \* enumeration
            /\ Holds(Ln.cnt = Cardinality(bbSet'))
TBbAdd  == IsEvent("bb_add") /\ BbAdd(Ln.a) /\ BbLogged /\ bbRes'.impl = <<Ln.res[1]>> /\ KeepBb
TBbDel  == IsEvent("bb_del") /\ BbDel(Ln.a) /\ BbLogged /\ bbRes'.impl = <<Ln.res[1]>> /\ KeepBb
TBbTest == IsEvent("bb_test") /\ BbTest(Ln.a) /\ BbLogged /\ bbRes'.impl = <<Ln.res[1], Ln.res[2]>> /\ KeepBb
TBbIter == IsEvent("bb_iter") /\ BbIterate /\ BbLogged /\ KeepBb
TBbCount == IsEvent("bb_count") /\ BbCount /\ BbLogged /\ KeepBb
TBbCopy == IsEvent("bb_copy") /\ BbCopy /\ BbLogged /\ bbRes'.impl = <<Ln.res[1]>> /\ KeepBb
TBbEqMod == IsEvent("bb_eqmod") /\ BbEqualMod(Ln.a) /\ BbLogged /\ bbRes'.impl = <<Ln.res[1]>> /\ KeepBb

\* ------------------------------------------------------------ rg
TRgAlloc == /\ IsEvent("rg_alloc") /\ RgAllocate(Ln.a, Ln.b)
            /\ rgList' = Pairs(Ln.list) /\ rgLast' = Ln.last /\ rgRes'.impl = <<Ln.res[1]>> /\ KeepRg

TraceInit == /\ l = 1 /\ cWhich = "none"
             /\ rcList = <<>> /\ rcSize = 1 /\ rcCursor = 0 /\ rcRef = [k \in 1..1 |-> 0] /\ rcRes = RcR("init", RcRV(OK, -1), RcRV(OK, -1))
             /\ IcIdle /\ DbIdle /\ BbIdle /\ RgIdle
TraceNext == \/ TReset
             \/ TRcFetch \/ TRcInc \/ TRcDec \/ TRcStore \/ TRcIter
             \/ TIcFetch \/ TIcInc \/ TIcDec \/ TIcStore \/ TIcRecreate
             \/ TDbAdd \/ TDbSet \/ TDbSort \/ TDbIter \/ TDbIter32 \/ TDbCount \/ TDbLast \/ TDbDrop \/ TDbCopy
             \/ TBbAdd \/ TBbDel \/ TBbTest \/ TBbIter \/ TBbCount \/ TBbCopy \/ TBbEqMod
             \/ TRgAlloc
TraceSpec == TraceInit /\ [][TraceNext]_tvars
TraceAccepted == TLCGet("stats").diameter - 1 = Len(Tr)
Matched == l - 1
=============================================================================
