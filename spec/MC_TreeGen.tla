----------------------------- MODULE MC_TreeGen -----------------------------
(* C18 model checking: exhaustive exploration of the tree builder under small constants (checks/c18.py writes the cfg):
   InvTreeOK, InvPopulateExact (the __populate_fs model refines the property-level Expect), InvRdumpExact.            *)
EXTENDS TreeGen
\* hard-link detection across devices needs two link groups with equal inode numbers on two devices: six nodes; the groups are
\* regular files or fifos (a type that is not copied through do_write_internal)
KindSeqLink == <<"dir", "reg", "fifo", "hard">>
KindSeqMC == <<"dir", "reg", "lnk", "chr", "blk", "fifo", "sock", "hard">>
=============================================================================
